# Extraction of the straight-line exponentiation chains of field.Invert, field.Pow22523 and Scalar.Invert from the
# working tree into a TLA+ module (ChainsData.tla).  Only parsing happens here; the exponents are computed by TLC
# (spec/MC_Chains.tla), which checks that the chain raises its input to p-2, (p-5)/8 and l-2: a statement about every input.
# If the source no longer has the expected straight-line shape the chain is skipped (recorded, never an alarm).
import os
import re


def func_body(src, header_re):
    m = re.search(header_re, src)
    if not m:
        return None
    i = src.index("{", m.end() - 1)
    depth, j = 0, i
    while j < len(src):
        if src[j] == "{":
            depth += 1
        elif src[j] == "}":
            depth -= 1
            if depth == 0:
                return src[i + 1:j]
        j += 1
    return None


def strip_comments(body):
    return re.sub(r"//[^\n]*", "", body)


def nm(x):
    return x.strip().lstrip("&*").strip()


def parse_field_chain(body, inp):
    """returns (steps, out) or None"""
    body = strip_comments(body)
    steps, out = [], None
    pos = 0
    toks = re.compile(r"\s*(?:(var [^\n]*)|for i := (\d+); i < (\d+); i\+\+ \{([^}]*)\}|(return )?(\w+)\.(Square|Multiply)\(([^)]*)\))")
    while pos < len(body):
        if body[pos:].strip() == "":
            break
        m = toks.match(body, pos)
        if not m:
            return None
        pos = m.end()
        if m.group(1):
            continue
        if m.group(2) is not None:
            n = int(m.group(3)) - int(m.group(2))
            inner = parse_field_chain(m.group(4), inp)
            if inner is None or inner[1] is not None:
                return None
            steps += inner[0] * n
            continue
        dst, op, args = m.group(6), m.group(7), [nm(a) for a in m.group(8).split(",")]
        if op == "Square" and len(args) == 1:
            steps.append(("sq", dst, args[0], ""))
        elif op == "Multiply" and len(args) == 2:
            steps.append(("mul", dst, args[0], args[1]))
        else:
            return None
        if m.group(5):
            out = dst
    return steps, out


def parse_scalar_invert(src):
    body = func_body(src, r"func \(s \*Scalar\) Invert\(t \*Scalar\) \*Scalar \{")
    p2k = func_body(src, r"func \(s \*Scalar\) pow2k\(k int\) \{")
    if body is None or p2k is None:
        return None
    if not re.search(r"for i := 0; i < k; i\+\+ \{\s*s\.Multiply\(s, s\)\s*\}", strip_comments(p2k)):
        return None
    body = strip_comments(body)
    steps = []
    pos = 0
    toks = re.compile(r"\s*(?:(var [^\n]*)|for i := 0; i < (\d+); i\+\+ \{\s*table\[i\+1\]\.Multiply\(&table\[i\], &tt\)\s*\}"
                      r"|table\[0\] = \*t|\*s = table\[(\d+)/2\]|s\.pow2k\((\d+) \+ (\d+)\)|(tt)\.Multiply\(t, t\)|s\.Multiply\(s, &table\[(\d+)/2\]\)|(return s))")
    while pos < len(body):
        if body[pos:].strip() == "":
            break
        m = toks.match(body, pos)
        if not m:
            return None
        pos = m.end()
        txt = m.group(0).strip()
        if m.group(1):
            continue
        if m.group(2):
            for i in range(int(m.group(2))):
                steps.append(("mul", "table[%d]" % (i + 1), "table[%d]" % i, "tt"))
        elif txt == "table[0] = *t":
            steps.append(("set", "table[0]", "t", ""))
        elif m.group(3) is not None:
            steps.append(("set", "s", "table[%d]" % (int(m.group(3)) // 2), ""))
        elif m.group(4) is not None:
            steps += [("sq", "s", "s", "")] * (int(m.group(4)) + int(m.group(5)))
        elif m.group(6):
            steps.append(("mul", "tt", "t", "t"))
        elif m.group(7) is not None:
            steps.append(("mul", "s", "s", "table[%d]" % (int(m.group(7)) // 2)))
        elif m.group(8):
            return steps, "s"
    return None


def tla_chain(name, steps, inp, out):
    items = ",\n    ".join('[op |-> "%s", d |-> "%s", a |-> "%s", b |-> "%s"]' % s for s in steps)
    return '%sChain == <<\n    %s >>\n%sIn == "%s"\n%sOut == "%s"\n' % (name, items, name, inp, name, out)


def extract(repo, outdir):
    """writes ChainsData.tla into outdir; returns the list of chains found"""
    found, parts = [], []
    try:
        fe = open(os.path.join(repo, "field", "fe.go")).read()
    except OSError:
        fe = ""
    for name, hdr, inp in (("Invert", r"func \(v \*Element\) Invert\(z \*Element\) \*Element \{", "z"),
                           ("Pow22523", r"func \(v \*Element\) Pow22523\(x \*Element\) \*Element \{", "x")):
        body = func_body(fe, hdr)
        r = parse_field_chain(body, inp) if body else None
        if r and r[1]:
            parts.append(tla_chain(name, r[0], inp, r[1]))
            found.append(name)
        else:
            parts.append('%sChain == <<>>\n%sIn == ""\n%sOut == ""\n' % (name, name, name))
    try:
        ex = open(os.path.join(repo, "extra.go")).read()
    except OSError:
        ex = ""
    r = parse_scalar_invert(ex)
    if r:
        parts.append(tla_chain("ScalarInvert", r[0], "t", r[1]))
        found.append("ScalarInvert")
    else:
        parts.append('ScalarInvertChain == <<>>\nScalarInvertIn == ""\nScalarInvertOut == ""\n')
    with open(os.path.join(outdir, "ChainsData.tla"), "w") as f:
        f.write("---- MODULE ChainsData ----\n\\* generated by bin/chains.py from the working tree\n" + "\n".join(parts) + "====\n")
    return found
