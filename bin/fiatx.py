# Word-level model of scalar_fiat.go: extraction (harness/fiatx, go/ast) -> spec/FiatData.tla, executed by the machine of
# spec/Fiat.tla under TLC (MC_Fiat: concrete runs on directed values and the interval run that proves the no-wrap
# obligations for all arguments).  A failing concrete run or an unproved obligation is a LEAD: this file turns it into
# concrete arguments (for obligations with z3, used purely as an input finder) and into a driver program on the public
# API; only the real code's behaviour on that program, judged by TraceApi, is a verdict.
import json
import os
import random
import subprocess

import vlib
from progdsl import L, le

R = 2**256
RINV = pow(R, L - 2, L)
CANON = {"Mul": "FiatMul", "Add": "FiatAdd", "Sub": "FiatSub", "Opp": "FiatOpp", "Nonzero": "FiatNonzero",
         "FromMontgomery": "FiatFromMont", "ToMontgomery": "FiatToMont", "ToBytes": "FiatToBytes", "FromBytes": "FiatFromBytes"}


def ensure_tool():
    exe = os.path.join(vlib.VERIF, "build", "fiatx")
    src = os.path.join(vlib.VERIF, "harness", "fiatx", "main.go")
    if not os.path.exists(exe) or os.path.getmtime(exe) < os.path.getmtime(src):
        os.makedirs(os.path.dirname(exe), exist_ok=True)
        rc, out = vlib.run(["go", "build", "-o", exe, "./fiatx"], 300, cwd=os.path.join(vlib.VERIF, "harness"), env=vlib.goenv())
        if rc != 0:
            raise vlib.Infra("building fiatx failed:\n" + out[-2000:])
    return exe


def extract(repo):
    """-> {canonical name: function dict} for the functions inside the subset, and a report"""
    path = os.path.join(repo, "scalar_fiat.go")
    report = {"file": "scalar_fiat.go", "functions": {}}
    if not os.path.exists(path):
        report["error"] = "file not found"
        return {}, report
    rc, out = vlib.run([ensure_tool(), path], 120)
    if rc != 0:
        report["error"] = out[-500:]
        return {}, report
    fns = {}
    for f in json.loads(out):
        short = f["name"]
        for pre in ("fiatScalar",):
            if short.startswith(pre):
                short = short[len(pre):]
        if short not in CANON:
            continue
        if f.get("unsupported") or not f.get("ins"):
            report["functions"][CANON[short]] = "outside the subset: %s" % f.get("unsupported")
            continue
        # arguments by position: out1 = params[0], then p1, p2
        ren = {n: "p%d" % i for i, n in enumerate(f["params"])}
        f["ren"] = ren
        fns[CANON[short]] = f
        report["functions"][CANON[short]] = len(f["ins"])
    return fns, report


def bn(v):
    b = []
    while v:
        b.append(v & 255)
        v >>= 8
    return "<<" + ",".join(str(x) for x in b) + ">>"


def tla_expr(e, ren):
    k = e["k"]
    if k == "var":
        return '[k |-> "var", n |-> "%s"]' % e["n"]
    if k == "arg":
        return '[k |-> "arg", a |-> "%s", i |-> %d]' % (ren.get(e["a"], e["a"]), int(e["i"]))
    if k == "lit":
        return '[k |-> "lit", v |-> %s]' % bn(int(e["v"]))
    if k in ("u64", "u8", "u1", "not"):
        return '[k |-> "%s", e |-> %s]' % (k, tla_expr(e["e"], ren))
    return '[k |-> "bin", o |-> "%s", l |-> %s, r |-> %s]' % (e["o"], tla_expr(e["l"], ren), tla_expr(e["r"], ren))


def tla_ins(i, ren):
    op = i["op"]
    if op == "mul":
        return '[op |-> "mul", hi |-> "%s", lo |-> "%s", a |-> %s, b |-> %s]' % (i["hi"], i["lo"], tla_expr(i["a"], ren), tla_expr(i["b"], ren))
    if op in ("add", "sub"):
        return '[op |-> "%s", s |-> "%s", c |-> "%s", a |-> %s, b |-> %s, ci |-> %s]' % (op, i["s"], i["c"], tla_expr(i["a"], ren), tla_expr(i["b"], ren), tla_expr(i["ci"], ren))
    if op == "cmov":
        return '[op |-> "cmov", d |-> "%s", c |-> %s, z |-> %s, nz |-> %s]' % (i["d"], tla_expr(i["c"], ren), tla_expr(i["z"], ren), tla_expr(i["nz"], ren))
    if op == "set":
        return '[op |-> "set", d |-> "%s", e |-> %s]' % (i["d"], tla_expr(i["e"], ren))
    return '[op |-> "out", i |-> %d, e |-> %s]' % (int(i["i"]), tla_expr(i["e"], ren))


def directed_values(seed, n_random):
    rng = random.Random(seed * 104729 + 11)
    w = 2**64
    vals = [0, 1, 2, 3, L - 1, L - 2, (L - 1) // 2, (L + 1) // 2, w - 1, w, w + 1, 2**128 - 1, 2**128, 2**192 - 1, 2**192, 2**252 - 1, 2**252,
            2**252 + 1, R % L, (R * R) % L, RINV, (L - RINV) % L, (R - 1) % L, 2**63, 2**127, 2**191, 2**251, L - w, L - 2**128, L - 2**192,
            (w - 1) * (1 + w + w * w), (w - 1) * w, (w - 1) * w * w, 0x0fffffffffffffff << 192, L & (2**192 - 1), L & (2**128 - 1)]
    for _ in range(n_random):
        c = rng.randrange(4)
        if c == 0:
            vals.append(rng.randrange(L))
        elif c == 1:   # words from a small alphabet
            vals.append(sum(rng.choice([0, 1, w - 1, w - 2, 2**63, 2**32, rng.randrange(w)]) << (64 * i) for i in range(4)))
        elif c == 2:
            vals.append((rng.choice([1, L - 1, RINV, R % L]) * rng.choice([1, 2, 3, w - 1, 2**rng.randrange(252)])) % L)
        else:
            vals.append(2**rng.randrange(253) - rng.randrange(2))
    return sorted({v % L for v in vals})


def write_data(fns, specdir, seed=1, n_random=24):
    parts = ["---- MODULE FiatData ----", "\\* generated by bin/fiatx.py from scalar_fiat.go of the working tree"]
    for name in CANON.values():
        f = fns.get(name)
        if f is None:
            parts.append("%s == <<>>" % name)
            parts.append("%sReduced == <<>>" % name)
        else:
            parts.append("%s == <<\n  %s >>" % (name, ",\n  ".join(tla_ins(i, f["ren"]) for i in f["ins"])))
            parts.append("%sReduced == <<%s>>" % (name, ", ".join("TRUE" if r else "FALSE" for r in f["reduced"][1:])))
    vals = directed_values(seed, n_random)
    parts.append("FiatVals == {%s}" % ", ".join(bn(v) for v in vals))
    parts.append("====")
    with open(os.path.join(specdir, "FiatData.tla"), "w") as fh:
        fh.write("\n".join(parts) + "\n")
    return len(vals)


def unbn(s):
    bs = [int(x) for x in s.split(",") if x.strip()]
    return sum(b << (8 * i) for i, b in enumerate(bs))


def model(work, repo, seed=1, n_random=24, timeout=1800):
    """run MC_Fiat; returns (result dict, concrete failures [(fn, a, b)], leads [(fn, pc, what)])"""
    fns, report = extract(repo)
    nvals = write_data(fns, work.spec, seed, n_random)
    res = {"module": "MC_Fiat", "extracted": report, "values": nvals}
    if not fns:
        res["skipped"] = "nothing extracted"
        return res, [], [], fns
    import time
    t0 = time.time()
    rc, out, gen, dist = vlib.tlc(work, "MC_Fiat", "MC_Fiat.cfg", workers=vlib.NCPU, timeout=timeout, heap="6g")
    res.update({"states": dist, "transitions": gen, "wall_s": round(time.time() - t0, 1)})
    if "No error has been found" not in out:
        raise vlib.Infra("MC_Fiat did not complete:\n" + out[-3000:])
    if '"FUNSOUND ' in out:
        raise vlib.Infra("spec/Fiat.tla: a concrete value lies outside the interval computed for it (the interval interpretation is unsound):\n" +
                         "\n".join(l for l in out.splitlines() if "FUNSOUND" in l)[:500])
    fails, leads = [], []
    for line in out.splitlines():
        if line.startswith('"FFAIL '):
            d = json.loads(vlib.unq(line[7:-1]))
            fails.append((d["fn"], unbn_list(d["a"]), unbn_list(d["b"]), d.get("bad", [])))
        elif line.startswith('"FLEAD '):
            d = json.loads(vlib.unq(line[7:-1]))
            leads.append((d["fn"], d["pc"], d["what"]))
    res["concrete_runs_failed"] = len(fails)
    res["unproved_obligations"] = [list(x) for x in leads]
    return res, fails, leads, fns


def unbn_list(x):
    return sum(int(b) << (8 * i) for i, b in enumerate(x))


# ---------------------------------------------------------------------------
# leads -> concrete arguments (z3 as an input finder)

def smt_expr(e, ren, width=64):
    k = e["k"]
    if k == "var":
        return "v_%s" % e["n"]
    if k == "arg":
        return "%s_%d" % (ren.get(e["a"], e["a"]), int(e["i"]))
    if k == "lit":
        return "(_ bv%d 64)" % (int(e["v"]) % 2**64)
    if k == "u64":
        return smt_expr(e["e"], ren)
    if k == "u8":
        return "(bvand %s (_ bv255 64))" % smt_expr(e["e"], ren)
    if k == "u1":
        return "(bvand %s (_ bv1 64))" % smt_expr(e["e"], ren)
    if k == "not":
        return "(bvnot %s)" % smt_expr(e["e"], ren)
    o = {"+": "bvadd", "*": "bvmul", "-": "bvsub", "&": "bvand", "|": "bvor", "^": "bvxor", "<<": "bvshl", ">>": "bvlshr"}[e["o"]]
    return "(%s %s %s)" % (o, smt_expr(e["l"], ren), smt_expr(e["r"], ren))


def oblig_terms(e, ren, what):
    """SMT conditions under which the obligation `what` fails somewhere inside expression e"""
    k = e["k"]
    if k in ("var", "arg", "lit"):
        return []
    if k in ("u64", "u8", "not"):
        return oblig_terms(e["e"], ren, what)
    if k == "u1":
        t = oblig_terms(e["e"], ren, what)
        if what.startswith("Uint1"):
            t.append("(bvugt %s (_ bv1 64))" % smt_expr(e["e"], ren))
        return t
    t = oblig_terms(e["l"], ren, what) + oblig_terms(e["r"], ren, what)
    l, r = smt_expr(e["l"], ren), smt_expr(e["r"], ren)
    if e["o"] == "+" and what == "+ wraps":
        t.append("(bvult (bvadd %s %s) %s)" % (l, r, l))
    if e["o"] == "-" and what == "- wraps":
        t.append("(bvult %s %s)" % (l, r))
    if e["o"] == "*" and what == "* wraps":
        t.append("(not (= ((_ extract 127 64) (bvmul ((_ zero_extend 64) %s) ((_ zero_extend 64) %s))) (_ bv0 64)))" % (l, r))
    return t


def smt_query(f, pc, what):
    ren = f["ren"]
    lines = ["(set-logic QF_BV)"]
    kinds = f["param_kinds"]
    for idx, (p, kind) in enumerate(zip(f["params"], kinds)):
        if idx == 0:
            continue
        n = 32 if kind == "bytes32" else 4
        for i in range(n):
            lines.append("(declare-const %s_%d (_ BitVec 64))" % (ren[p], i))
            if kind == "bytes32":
                lines.append("(assert (bvule %s_%d (_ bv255 64)))" % (ren[p], i))
        if f["reduced"][idx]:
            bits = 8 if kind == "bytes32" else 64
            cat = " ".join("((_ extract %d 0) %s_%d)" % (bits - 1, ren[p], i) for i in reversed(range(n)))
            lines.append("(assert (bvult (concat %s) (_ bv%d 256)))" % (cat, L))
    declared = set()

    def define(name, term):
        if name == "_":
            return
        # the programs are in SSA form except for `+=`; rename on redefinition
        lines.append("(define-fun v_%s () (_ BitVec 64) %s)" % (name, term))

    seen = {}

    def fresh(name):
        seen[name] = seen.get(name, 0) + 1
        return name if seen[name] == 1 else "%s__%d" % (name, seen[name])

    target = None
    for i, ins in enumerate(f["ins"], start=1):
        exprs = [ins[k] for k in ("a", "b", "ci", "c", "z", "nz", "e") if isinstance(ins.get(k), dict)]
        if i == pc:
            terms = []
            for e in exprs:
                terms += oblig_terms(e, ren, what)
            if what.endswith("above 1"):
                key = "ci" if ins["op"] in ("add", "sub") else "c"
                terms.append("(bvugt %s (_ bv1 64))" % smt_expr(ins[key], ren))
            if not terms:
                return None
            target = "(assert (or %s))" % " ".join(terms)
            lines.append(target)
            break
        op = ins["op"]
        if op == "mul":
            a, b = smt_expr(ins["a"], ren), smt_expr(ins["b"], ren)
            prod = "(bvmul ((_ zero_extend 64) %s) ((_ zero_extend 64) %s))" % (a, b)
            define(ins["hi"], "((_ extract 127 64) %s)" % prod)
            define(ins["lo"], "((_ extract 63 0) %s)" % prod)
        elif op == "add":
            a, b, c = (smt_expr(ins[k], ren) for k in ("a", "b", "ci"))
            t = "(bvadd ((_ zero_extend 64) %s) ((_ zero_extend 64) %s) ((_ zero_extend 64) %s))" % (a, b, c)
            define(ins["s"], "((_ extract 63 0) %s)" % t)
            define(ins["c"], "((_ zero_extend 63) ((_ extract 64 64) %s))" % t)
        elif op == "sub":
            a, b, c = (smt_expr(ins[k], ren) for k in ("a", "b", "ci"))
            t = "(bvsub ((_ zero_extend 64) %s) (bvadd ((_ zero_extend 64) %s) ((_ zero_extend 64) %s)))" % (a, b, c)
            define(ins["s"], "((_ extract 63 0) %s)" % t)
            define(ins["c"], "((_ zero_extend 63) ((_ extract 127 127) %s))" % t)
        elif op == "cmov":
            c, z, nz = (smt_expr(ins[k], ren) for k in ("c", "z", "nz"))
            define(ins["d"], "(ite (= %s (_ bv0 64)) %s %s)" % (c, z, nz))
        elif op == "set":
            term = smt_expr(ins["e"], ren)
            if ins["d"] in seen:       # x += e: give the new value a new name and rewrite later uses
                return None            # (kept simple: a redefinition before the target is not handled)
            define(ins["d"], term)
            seen[ins["d"]] = 1
    if target is None:
        return None
    lines.append("(check-sat)")
    lines.append("(get-model)")
    return "\n".join(lines) + "\n"


def solve(f, pc, what, workdir, timeout=90):
    q = smt_query(f, pc, what)
    if q is None:
        return None
    path = os.path.join(workdir, "lead_%s_%d.smt2" % (f["name"], pc))
    with open(path, "w") as fh:
        fh.write(q)
    # both installed solver versions race; the first model wins
    procs = []
    for exe in ("z3-new", "z3"):
        try:
            procs.append((subprocess.Popen([exe, "-T:%d" % timeout, path], stdout=open(path + "." + exe + ".out", "wb"), stderr=subprocess.DEVNULL),
                          path + "." + exe + ".out"))
        except OSError:
            pass
    import time
    out, t0 = "", time.time()
    while procs and time.time() - t0 < timeout + 30:
        for pr, opath in list(procs):
            if pr.poll() is not None:
                o = open(opath, "rb").read().decode("utf-8", "replace")
                procs.remove((pr, opath))
                if o.startswith("sat"):
                    out = o
                    break
        if out:
            break
        time.sleep(0.5)
    for pr, _ in procs:
        pr.kill()
    if not out.startswith("sat"):
        return None
    import re
    vals = {}
    for m in re.finditer(r"\(define-fun (p\d+_\d+) \(\) \(_ BitVec 64\)\s+#x([0-9a-f]+)\)", out):
        vals[m.group(1)] = int(m.group(2), 16)
    args = []
    for idx, (p, kind) in enumerate(zip(f["params"], f["param_kinds"])):
        if idx == 0:
            continue
        n, bits = (32, 8) if kind == "bytes32" else (4, 64)
        args.append(sum(vals.get("%s_%d" % (f["ren"][p], i), 0) << (bits * i) for i in range(n)))
    return args


# ---------------------------------------------------------------------------
# arguments of a word-level function -> a program on the public API whose execution passes exactly these arguments

def program_for(p, fn, args):
    """p: progdsl.Prog.  Montgomery-domain arguments m are reached as the scalar m * R^-1 (SetCanonicalBytes stores
    ToMontgomery of it); FromMontgomery/ToBytes run inside Scalar.Bytes; ToMontgomery/FromBytes inside the decoders."""
    def load(reg, m, breg):
        p.buf(breg, le((m * RINV) % L))
        p.op("Scalar.SetCanonicalBytes", r=reg, a=[breg])
    a = args[0] % L
    b = (args[1] % L) if len(args) > 1 else 0
    if fn in ("FiatMul", "FiatAdd", "FiatSub"):
        load("s0", a, "b0")
        load("s1", b, "b1")
        op = {"FiatMul": "Scalar.Multiply", "FiatAdd": "Scalar.Add", "FiatSub": "Scalar.Subtract"}[fn]
        p.op(op, r="s2", a=["s0", "s1"])
        p.op("Scalar.Bytes", r="s2", o=["b2"])
        if fn == "FiatMul":
            p.op("Scalar.MultiplyAdd", r="s3", a=["s0", "s1", "s0"])
            p.op("Scalar.Bytes", r="s3", o=["b3"])
    elif fn == "FiatOpp":
        load("s0", a, "b0")
        p.op("Scalar.Negate", r="s2", a=["s0"])
        p.op("Scalar.Bytes", r="s2", o=["b2"])
    elif fn in ("FiatFromMont", "FiatNonzero"):
        load("s0", a, "b0")
        p.op("Scalar.Bytes", r="s0", o=["b2"])
        p.op("Scalar.Equal", r="s0", a=["s0"])
    elif fn == "FiatToBytes":        # argument: the non-Montgomery value
        p.buf("b0", le(a))
        p.op("Scalar.SetCanonicalBytes", r="s0", a=["b0"])
        p.op("Scalar.Bytes", r="s0", o=["b2"])
    else:                            # ToMontgomery / FromBytes: the decoded value itself
        p.buf("b0", le(a))
        p.op("Scalar.SetCanonicalBytes", r="s0", a=["b0"])
        p.op("Scalar.Bytes", r="s0", o=["b2"])
        p.op("Scalar.Multiply", r="s1", a=["s0", "s0"])
        p.op("Scalar.Bytes", r="s1", o=["b3"])
    return p
