#!/usr/bin/env python3
"""(Re)generate MANIFEST.json from the table below (kept in one place so that it always validates)."""
import json, os
VERIF = os.path.dirname(os.path.dirname(os.path.abspath(__file__)))
TRACE_NOTE = ("Trusted: TLC/SANY; java.math.BigInteger behind the BigNat override (cross-checked against the pure TLA+ definitions in setup); "
              "the Go toolchain; the driver's unsafe views (layout-guarded); my transcription of RFC 8032/7748 into the spec "
              "(anchored by MC_RealParams). Universal quantification is discharged only on toy instances of the same module text and on the "
              "named finite real-size sets; at the real constants the code is judged on sampled executions, each validated event by event.")
TECH = "TLA+ spec + TLC: exhaustive model checking of toy instances; TLC trace validation (monitor spec TraceApi at the real constants) of executions of the real code"
CHECKS = {
 "C01": ("scalar multiplication = exact multiple, receiver-independent", "8/C01"),
 "C02": ("Add/Subtract/Negate/MultByCofactor are the complete group law", "8/C02"),
 "C04": ("point decoding accept set and result", "8/C04"),
 "C05": ("point encoding canonical, representation independent, round trip", "8/C05"),
 "C06": ("Point.Equal decides equality", "8/C06"),
 "C07": ("scalar arithmetic mod l", "8/C07"),
 "C08": ("scalar encodings: accept sets, wide reduction, clamping", "8/C08"),
 "C09": ("field arithmetic is GF(p) for every reachable representation", "8/C09"),
 "C10": ("field encodings and predicates depend only on the value", "8/C10"),
 "C11": ("aliasing allowed, arguments never modified", "8/C11"),
 "C12": ("every reachable Point is valid", "8/C12"),
 "C13": ("extended-coordinate import/export validated and faithful", "8/C13"),
 "C14": ("failed setters atomic, successful ones return the receiver", "8/C14"),
 "C15": ("uninitialised Points and mismatched lengths panic", "8/C15"),
 "C16": ("SqrtRatio contract", "8/C16"),
 "C17": ("BytesMontgomery is the RFC 7748 map", "8/C17"),
 "C19": ("returned values fresh, operations pure", "8/C19"),
}
def main():
    props = [json.loads(l) for l in open(os.path.join(VERIF, "properties.jsonl"))]
    extra = {}
    p = os.path.join(VERIF, "bin", "manifest_extra.json")
    if os.path.exists(p):
        extra = json.load(open(p))
    checks = []
    for pr in props:
        i = pr["id"]
        if i in CHECKS:
            what, ref = CHECKS[i]
            c = {"property_id": i, "quick_cmd": "bin/check %s quick" % i, "thorough_cmd": "bin/check %s thorough" % i,
                 "evidence_file": "evidence/%s.json" % i, "replay_cmd_template": "bin/check %s --replay {path}" % i,
                 "engine": "tla-trace",
                 "level_claimed": {"category": "model_checking",
                                   "text": "%s: the TLA+ specification states the property; TLC checks it exhaustively on toy instances of the same modules "
                                           "(where listed in the evidence) and validates, event by event at the real constants, traces of programs executed "
                                           "against the code built from the working tree; every expected value is computed by the specification." % what,
                                   "design_ref": "DESIGN.md section " + ref},
                 "level_note": TRACE_NOTE, "technique": TECH}
            c.update(extra.get(i, {}))
            checks.append(c)
        elif i in extra and "quick_cmd" in extra[i]:
            checks.append(dict({"property_id": i}, **extra[i]))
    claimed = {c["property_id"] for c in checks}
    na = [{"property_id": pr["id"], "reason": extra.get("_na", {}).get(pr["id"], "check not built yet (build in progress; will be claimed)")}
          for pr in props if pr["id"] not in claimed]
    m = {"version": 1, "setup_cmd": "bin/setup",
         "hooks": {"guard": "verif",
                   "enable": "none needed so far: the driver reads representations through layout-guarded unsafe views; in-package shims under /verif/hooks (tag verif) are added with `go build -tags verif -overlay <json>` by bin/check and never edit /repo",
                   "baseline_off_cmd": "cd /repo && GOFLAGS=-mod=mod GOPROXY=off GOSUMDB=off GOTOOLCHAIN=local go test -vet=off -count=1 ./...",
                   "source_commits": [], "add_only": True},
         "engines": [{"name": "tla-trace", "path": "bin/check", "serves_properties": sorted(claimed),
                      "kind_free_text": "TLA+ specification (spec/*.tla) checked with TLC: toy-instance model checking + trace validation of real executions recorded by harness/cmd/edrv"}],
         "checks": checks,
         "notes": "fix: commits in /repo: 8c2cf14 (MultiScalarMult receiver reset), d9457f3 (Z = 0 rejected by SetExtendedCoordinates); see known_findings.json and DESIGN.md section 9",
         "not_applicable": na}
    json.dump(m, open(os.path.join(VERIF, "MANIFEST.json"), "w"), indent=1)
    print("MANIFEST: %d checks, %d not claimed" % (len(checks), len(na)))
if __name__ == "__main__":
    main()
