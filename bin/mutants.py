#!/usr/bin/env python3
"""Run checks against seeded changes, each applied to a scratch worktree of /repo (never to /repo itself).

  bin/mutants.py verify <dir-with-patch.diff,demo_test.go,meta.json> ...   confirm suite passes, demo fails/passes
  bin/mutants.py run [--tier quick] [--props C01,C12] <seeded-dir> ...     run bin/check for the mutant's property
                                                                           (and --props) with VERIF_REPO=<scratch>
The scratch worktree lives under /tmp and is removed afterwards.
"""
import json
import os
import re
import shutil
import subprocess
import sys
import tempfile

VERIF = os.path.dirname(os.path.dirname(os.path.abspath(__file__)))
GOENV = dict(os.environ, GOFLAGS="-mod=mod", GOPROXY="off", GOSUMDB="off", GOTOOLCHAIN="local")


def sh(cmd, cwd=None, env=None, timeout=1800):
    r = subprocess.run(cmd, cwd=cwd, env=env, stdout=subprocess.PIPE, stderr=subprocess.STDOUT, timeout=timeout, shell=isinstance(cmd, str))
    return r.returncode, r.stdout.decode("utf-8", "replace")


def scratch():
    d = tempfile.mkdtemp(prefix="verif-mut-")
    os.rmdir(d)
    rc, out = sh(["git", "-C", "/repo", "worktree", "add", "-q", "--detach", d, "HEAD"])
    if rc != 0:
        raise SystemExit("worktree add failed: " + out)
    return d


def drop(d):
    sh(["git", "-C", "/repo", "worktree", "remove", "--force", d])
    shutil.rmtree(d, ignore_errors=True)


def demo_cmd(demo_path):
    first = open(demo_path).readline()
    m = re.search(r"(go test [^\n]*)", open(demo_path).read(600))
    return first, (m.group(1).strip().rstrip("`.") if m else None)


def place_demo(wt, sd):
    demo = os.path.join(sd, "demo_test.go")
    head = open(demo).read(800)
    pkg = re.search(r"^package (\w+)", open(demo).read(), re.M).group(1)
    sub = "field" if pkg.startswith("field") else "."
    dst = os.path.join(wt, sub, "zz_seed_demo_test.go")
    shutil.copy(demo, dst)
    text = open(demo).read()
    name = re.search(r"func (Test\w+)\(", text).group(1)
    m = re.search(r"-run\s+'?\^?(Test\w+)", text[:1500])      # the author's own command, when the file states one
    if m and ("func %s(" % m.group(1)) in text:
        name = m.group(1)
    tags = re.search(r"-tags\s+(\w+)", text[:1500])
    return dst, name, ("./field" if sub == "field" else "."), (tags.group(1) if tags else None)


def verify(sd):
    res = {"dir": sd}
    wt = scratch()
    try:
        dst, name, pkg, tags = place_demo(wt, sd)
        tagargs = ["-tags", tags] if tags else []
        rc, out = sh(["go", "test", "-vet=off", "-count=1"] + tagargs + ["-run", "^" + name + "$", pkg], cwd=wt, env=GOENV)
        res["demo_passes_without_change"] = rc == 0
        os.remove(dst)
        rc, out = sh(["git", "apply", os.path.join(sd, "patch.diff")], cwd=wt)
        res["patch_applies"] = rc == 0
        rc, out = sh(["go", "build", "./..."], cwd=wt, env=GOENV)
        res["builds"] = rc == 0
        rc, out = sh(["go", "test", "-vet=off", "-count=1", "./..."], cwd=wt, env=GOENV)
        res["suite_passes_with_change"] = rc == 0
        if rc != 0:
            res["suite_output"] = out[-800:]
        dst, name, pkg, tags = place_demo(wt, sd)
        rc, out = sh(["go", "test", "-vet=off", "-count=1"] + tagargs + ["-run", "^" + name + "$", pkg], cwd=wt, env=GOENV)
        res["demo_fails_with_change"] = rc != 0
        res["demo"] = name + (" (-tags %s)" % tags if tags else "")
    finally:
        drop(wt)
    res["confirmed"] = all(res.get(k) for k in ("demo_passes_without_change", "patch_applies", "builds", "suite_passes_with_change", "demo_fails_with_change"))
    return res


def runchecks(sd, props, tier):
    meta = json.load(open(os.path.join(sd, "meta.json")))
    own = meta.get("property") or meta.get("breaks")
    todo = ([own] if own else []) + [p for p in props if p != own]
    wt = scratch()
    out = {}
    try:
        rc, o = sh(["git", "apply", os.path.join(sd, "patch.diff")], cwd=wt)
        if rc != 0:
            raise SystemExit("patch does not apply: " + o)
        for p in todo:
            env = dict(os.environ, VERIF_REPO=wt, VERIF_EVIDENCE_DIR=os.path.join(wt, ".verif-evidence"))
            rc, o = sh([os.path.join(VERIF, "bin", "check"), p, tier], env=env, timeout=7200)
            viol = [l for l in o.splitlines() if l.startswith("VIOLATION")]
            out[p] = {"rc": rc, "violations": len(viol), "tail": o.strip().splitlines()[-3:]}
    finally:
        drop(wt)
    return own, out


def main():
    if len(sys.argv) < 3:
        print(__doc__)
        return 2
    mode = sys.argv[1]
    args = sys.argv[2:]
    tier, props = "quick", []
    while args and args[0].startswith("--"):
        if args[0] == "--tier":
            tier = args[1]
        elif args[0] == "--props":
            props = args[1].split(",")
        args = args[2:]
    for sd in args:
        sd = os.path.abspath(sd.rstrip("/"))
        if mode == "verify":
            print(json.dumps(verify(sd)))
        else:
            own, out = runchecks(sd, props, tier)
            det = [p for p, r in out.items() if r["rc"] == 1]
            print("%s own=%s detected_by=%s %s" % (sd, own, det, json.dumps({p: (r["rc"], r["tail"][-1][:160] if r["tail"] else "") for p, r in out.items()})))
        sys.stdout.flush()
    return 0


if __name__ == "__main__":
    sys.exit(main())
