# Program construction for the driver (harness/cmd/edrv), plus the arithmetic
# needed to MAKE interesting inputs (encodings of special points, boundary
# scalars, limb patterns).  Nothing here judges an output: expected values are
# computed by the TLA+ specification during trace validation.
import random

P = 2**255 - 19
L = 2**252 + 27742317777372353535851937790883648493
D = (-121665 * pow(121666, P - 2, P)) % P
SQRTM1 = pow(2, (P - 1) // 4, P)
BENC = bytes([0x58] + [0x66] * 31)


def le(n, length=32):
    return bytes((n >> (8 * i)) & 0xff for i in range(length))


def inv(a):
    return pow(a, P - 2, P)


def is_square(a):
    a %= P
    return a == 0 or pow(a, (P - 1) // 2, P) == 1


def y_on_curve(y):
    y %= P
    u = (y * y - 1) % P
    v = (D * y * y + 1) % P
    return is_square(u * v)


def sqrt(a):
    """a square root of a mod P (P = 5 mod 8), or None"""
    a %= P
    r = pow(a, (P + 3) // 8, P)
    if (r * r - a) % P == 0:
        return r
    r = r * SQRTM1 % P
    if (r * r - a) % P == 0:
        return r
    return None


def recover_x(y, sign):
    y %= P
    x2 = (y * y - 1) * inv(D * y * y + 1) % P
    x = sqrt(x2)
    if x is None:
        return None
    if x & 1 != sign:
        x = (P - x) % P
    return x


def enc_point(x, y):
    return le((y % P) | ((x % P & 1) << 255))


def padd(p, q):
    x1, y1 = p
    x2, y2 = q
    t = D * x1 * x2 * y1 * y2 % P
    return ((x1 * y2 + y1 * x2) * inv(1 + t) % P, (y1 * y2 + x1 * x2) * inv(1 - t) % P)


def pmul(k, p):
    r = (0, 1)
    while k:
        if k & 1:
            r = padd(r, p)
        p = padd(p, p)
        k >>= 1
    return r


BPT = (recover_x(4 * inv(5), 0), 4 * inv(5) % P)

# the eight small-order points (encodings)
TORSION_HEX = [
    "0100000000000000000000000000000000000000000000000000000000000000",
    "ecffffffffffffffffffffffffffffffffffffffffffffffffffffffffffff7f",
    "0000000000000000000000000000000000000000000000000000000000000000",
    "0000000000000000000000000000000000000000000000000000000000000080",
    "26e8958fc2b227b045c3f489f2ef98f0d5dfac05d3c63339b13802886d53fc05",
    "26e8958fc2b227b045c3f489f2ef98f0d5dfac05d3c63339b13802886d53fc85",
    "c7176a703d4dd84fba3c0b760d10670f2a2053fa2c39ccc64ec7fd7792ac037a",
    "c7176a703d4dd84fba3c0b760d10670f2a2053fa2c39ccc64ec7fd7792ac03fa",
]
TORSION = [bytes.fromhex(h) for h in TORSION_HEX]


def dec_point(b):
    v = int.from_bytes(b, "little")
    y = (v & (2**255 - 1)) % P
    x = recover_x(y, v >> 255)
    if x is None:
        return None
    if x == 0:
        return (0, y)
    return (x, y)


class Prog:
    shape_rng = None      # when set (by suites.generate), multi-scalar calls draw the shape of their slice arguments from it

    def __init__(self, pid, note=""):
        self.id = pid
        self.note = note
        self.steps = []

    def op(self, op, r=None, a=None, ss=None, ps=None, o=None, n=None, shape=None):
        st = {"op": op}
        if r is not None:
            st["r"] = r
        if a:
            st["a"] = list(a)
        if ss is not None:
            st["ss"] = list(ss)
        if ps is not None:
            st["ps"] = list(ps)
        if o:
            st["o"] = list(o)
        if n is not None:
            st["n"] = int(n)
        if shape:
            st["shape"] = shape
        elif ss is not None and Prog.shape_rng is not None:
            c = Prog.shape_rng.randrange(8)
            if c < 3:
                st["shape"] = ["exact", "nil", "niln"][c]
        self.steps.append(st)
        return self

    def buf(self, r, data, cap=None, tail=None, nil=False):
        st = {"op": "Buf.Set", "r": r}
        if nil:
            st["nil"] = True
        else:
            st["bytes"] = list(data)
            if cap is not None:
                st["cap"] = cap
            if tail is not None:
                st["tail"] = list(tail)
        self.steps.append(st)
        return self

    def inject(self, r, limbs):
        self.steps.append({"op": "Elem.Inject", "r": r, "limbs": [str(x) for x in limbs]})
        return self

    def scribble(self, r):
        self.steps.append({"op": "Buf.Scribble", "r": r})
        return self

    # ---- convenience composites (every step is an ordinary, validated event)
    def point_from_bytes(self, preg, data, breg="b7"):
        self.buf(breg, data)
        return self.op("Point.SetBytes", r=preg, a=[breg])

    def scalar_canon(self, sreg, k, breg="b7"):
        self.buf(breg, le(k % L))
        return self.op("Scalar.SetCanonicalBytes", r=sreg, a=[breg])

    def scalar_wide(self, sreg, data64, breg="b7"):
        self.buf(breg, data64)
        return self.op("Scalar.SetUniformBytes", r=sreg, a=[breg])

    def elem_from_int(self, ereg, v, breg="b7"):
        self.buf(breg, le(v % 2**256))
        return self.op("Elem.SetBytes", r=ereg, a=[breg])

    def rescale(self, preg, lam, tmp=("e4", "e5", "e6", "e7"), lamreg="e3"):
        """replace preg's representation by (lam X, lam Y, lam Z, lam T) through the public API"""
        X, Y, Z, T = tmp
        self.op("Point.ExtendedCoordinates", r=preg, o=[X, Y, Z, T])
        self.elem_from_int(lamreg, lam)
        for c in (X, Y, Z, T):
            self.op("Elem.Multiply", r=c, a=[c, lamreg])
        return self.op("Point.SetExtendedCoordinates", r=preg, a=[X, Y, Z, T])

    def to_json(self):
        d = {"id": self.id, "note": self.note, "steps": self.steps}
        if getattr(self, "cold", False):
            d["cold"] = True
        return d


def limbs_of(v):
    """canonical 5x51 limbs of an integer < 2^255"""
    return [(v >> (51 * i)) & (2**51 - 1) for i in range(5)]


def limbs_plus_p(v, k=1):
    """limbs of v + k*p without carrying (representation v+kp in limb form), k in 0..2"""
    pl = [2**51 - 19] + [2**51 - 1] * 4
    l = limbs_of(v % P)
    return [l[i] + k * pl[i] for i in range(5)]


def rnd_scalar(rng):
    c = rng.randrange(12)
    if c == 0:
        return rng.choice([0, 1, 2, 8, L - 1, L - 2, (L - 1) // 2, (L + 1) // 2, 2**252, 2**252 - 1, 2**251])
    if c == 1:
        return rng.randrange(2**125)
    if c == 2:  # nibble patterns that force / suppress recentring carries
        nib = rng.choice([7, 8, 9, 15, 0])
        v = int(("%x" % nib) * 63, 16)
        return v % L
    if c == 3:
        return (L - rng.randrange(1, 2**16)) % L
    if c == 4:
        return int.from_bytes(bytes(rng.choice([0x77, 0x88, 0x80, 0x08, 0xf8, 0x8f]) for _ in range(31)) + b"\x0f", "little") % L
    return rng.randrange(L)


def rnd_point_enc(rng):
    """encoding of a curve point of a random class"""
    c = rng.randrange(10)
    if c == 0:
        return rng.choice(TORSION)
    if c == 1:
        return BENC
    while True:
        y = rng.randrange(P)
        if y_on_curve(y):
            return le(y | (rng.randrange(2) << 255))


def rnd_field(rng):
    c = rng.randrange(10)
    if c == 0:
        return rng.choice([0, 1, 2, P - 1, P - 2, (P - 1) // 2, SQRTM1, P - SQRTM1, 19, 2**255 - 20 + rng.randrange(20)])
    if c == 1:
        return rng.randrange(64)
    if c == 2:
        return P - 1 - rng.randrange(64)
    return rng.randrange(2**255)
