#!/usr/bin/env python3
"""Self-checks of the specification's trusted base (no code of the library involved):
   setup:   MC_BigNat (Java overrides == pure TLA+ definitions, ring laws) and MC_RealParams (facts about the real constants)
"""
import os
import sys
sys.path.insert(0, os.path.dirname(os.path.abspath(__file__)))
import vlib


def main():
    work = vlib.Work("selfcheck")
    try:
        for module, cfg in [("MC_BigNat", "MC_BigNat.cfg"), ("MC_RealParams", "MC_RealParams.cfg")]:
            r = vlib.model_check(work, module, cfg, timeout=1200)
            print("selfcheck %s: %d distinct states, %.1fs" % (module, r["states"], r["wall_s"]))
    except vlib.Infra as ex:
        print("SELFCHECK FAILED:", ex)
        return 2
    finally:
        work.cleanup()
    return 0


if __name__ == "__main__":
    sys.exit(main())
