#!/usr/bin/env python3
"""bin/selftest.py -- demonstrate that the specification is bound to the code (DESIGN.md 6.1):
  1. a trace recorded from the real library is accepted by TraceApi;
  2. the same trace with ONE logged field corrupted (a limb of a result, an output byte, an error flag, a returned-pointer
     class) is rejected, with the conjunct of the right property;
  3. with one event removed, the continuity conjunct fails (the spec's register file no longer matches the logged pre-state);
  4. a truncated last line makes the run fail outright (never "accepted").
exit 0 iff every expectation holds."""
import json
import os
import sys

sys.path.insert(0, os.path.dirname(os.path.abspath(__file__)))
import suites
import vlib
from progdsl import *


def program():
    p = Prog(1, "selftest")
    p.point_from_bytes("p0", BENC)
    p.scalar_canon("s0", 12345)
    p.op("Point.ScalarMult", r="p1", a=["s0", "p0"])
    p.op("Point.Add", r="p2", a=["p1", "p0"])
    p.op("Point.Bytes", r="p2", o=["b0"])
    p.buf("b1", bytes(31))
    p.op("Point.SetBytes", r="p2", a=["b1"])
    p.op("Scalar.Multiply", r="s1", a=["s0", "s0"])
    p.op("Scalar.Bytes", r="s1", o=["b2"])
    p.elem_from_int("e0", 7)
    p.op("Elem.Square", r="e1", a=["e0"])
    p.op("Point.Equal", r="p1", a=["p0"])
    return [p.to_json()]


def props(res):
    return sorted({x["prop"] + ":" + x["tag"] for f in res["fails"] for x in f["fails"] if x["prop"] != "INFO"})


def main():
    work = vlib.Work("selftest")
    ok = True
    try:
        drv = vlib.build_driver(work)
        tr = vlib.run_driver(drv, program(), work, "self")
        lines = open(tr).read().splitlines()
        evs = [json.loads(l) for l in lines]

        def validate(events, name):
            path = os.path.join(work.dir, name + ".ndjson")
            with open(path, "w") as f:
                for e in events:
                    f.write(json.dumps(e) + "\n")
            return vlib.validate_trace(work, path)

        r = validate(evs, "orig")
        print("1. unmodified trace: %d events, failing conjuncts: %s" % (r["events"], props(r)))
        ok &= props(r) == []

        def idx(op):
            return next(i for i, e in enumerate(evs) if e["op"] == op)

        def corrupt(name, fn, expect):
            nonlocal ok
            ev2 = json.loads(json.dumps(evs))
            fn(ev2)
            got = props(validate(ev2, name))
            hit = all(any(g.startswith(x) for g in got) for x in expect)
            print("2. %-38s -> %s  [%s]" % (name, got, "ok" if hit else "EXPECTED " + str(expect)))
            ok &= hit

        def flip_limb(ev2):
            e = ev2[idx("Point.Add")]
            e["post"]["p2"]["x"][0] ^= 1
        corrupt("one bit of a result limb (Add)", flip_limb, ["C02:value", "C12:valid"])

        def flip_byte(ev2):
            e = ev2[idx("Point.Bytes")]
            e["post"]["b0"]["mem"][5] ^= 0x10
        corrupt("one output byte (Bytes)", flip_byte, ["C05:bytes"])

        def flip_err(ev2):
            e = [x for x in ev2 if x["op"] == "Point.SetBytes"][-1]
            e["err"] = 0
            e["ret"] = "recv"
        corrupt("error flag of a failing setter", flip_err, ["C04:accept.iff"])

        def flip_ret(ev2):
            e = ev2[idx("Scalar.Multiply")]
            e["ret"] = "fresh"
        corrupt("returned pointer class", flip_ret, ["C07:ret.recv"])

        def flip_out(ev2):
            e = ev2[idx("Point.Equal")]
            e["out"] = 1 - e["out"]
        corrupt("integer result of Equal", flip_out, ["C06:value"])

        def flip_scalar(ev2):
            e = ev2[idx("Scalar.Multiply")]
            e["post"]["s1"][3] ^= 4
        corrupt("one bit of a scalar word", flip_scalar, ["C07:value"])

        def touch_arg(ev2):
            e = ev2[idx("Point.Add")]
            e["post"]["p0"]["t"][1] ^= 1
        corrupt("an argument modified by the call", touch_arg, ["C11:arg.unchanged"])

        # 3. one event removed: continuity
        ev3 = [e for i, e in enumerate(evs) if i != idx("Point.ScalarMult")]
        try:
            got = props(validate(ev3, "removed"))
        except vlib.Infra as ex:
            got = ["INFRA (run rejected)"]
        hit = any(g.startswith("INFRA") for g in got)
        print("3. one event removed -> %s [%s]" % (got, "ok" if hit else "EXPECTED INFRA:continuity"))
        ok &= hit
        # 4. truncated file
        path = os.path.join(work.dir, "trunc.ndjson")
        open(path, "w").write("\n".join(lines[:-1]) + "\n" + lines[-1][: len(lines[-1]) // 2] + "\n")
        try:
            vlib.validate_trace(work, path)
            print("4. truncated trace was ACCEPTED  [EXPECTED a failing run]")
            ok = False
        except vlib.Infra:
            print("4. truncated trace -> run fails (exit 2 path)  [ok]")
        # 5. the word-level machine (spec/Fiat.tla) is not vacuous: a copy of scalar_fiat.go in which one carry of the
        # Montgomery multiplication is added after the fact ("x, c = Add64(a, b, carry)" -> "Add64(a, b, 0); x += carry")
        # must leave an unproved obligation at that instruction, and arguments that make it wrap must be found
        import fiatx
        import re
        import shutil
        fdir = os.path.join(work.dir, "fiatcopy")
        os.makedirs(fdir)
        src = open(os.path.join(vlib.repo(), "scalar_fiat.go")).read()
        m = [x for x in re.finditer(r"\t(x\d+), (x\d+) = bits\.Add64\((x\d+), (x\d+), uint64\(fiatScalarUint1\((x\d+)\)\)\)\n", src)]
        if len(m) < 12:
            print("5. word-level model: scalar_fiat.go does not have the expected shape; skipped")
        else:
            mm = m[11]
            mut = src[:mm.start()] + "\t%s, %s = bits.Add64(%s, %s, uint64(0x0))\n\t%s += uint64(fiatScalarUint1(%s))\n" % (
                mm.group(1), mm.group(2), mm.group(3), mm.group(4), mm.group(1), mm.group(5)) + src[mm.end():]
            open(os.path.join(fdir, "scalar_fiat.go"), "w").write(mut)
            res0, fails0, leads0, _ = fiatx.model(work, vlib.repo())
            res1, fails1, leads1, fns1 = fiatx.model(work, fdir)
            wit = [fiatx.solve(fns1[fn], pc, what, work.dir, timeout=240) for fn, pc, what in leads1[:1]]
            hit = (not leads0 and not fails0 and len(leads1) >= 1 and wit and wit[0] is not None)
            print("5. word-level model: working tree %d leads / %d failing runs; with one lazy carry: leads %s, witness %s [%s]" % (
                len(leads0), len(fails0), leads1, "found" if wit and wit[0] else "not found", "ok" if hit else "EXPECTED a lead and a witness"))
            ok &= bool(hit)
    finally:
        work.cleanup()
    print("selftest", "passed" if ok else "FAILED")
    return 0 if ok else 1


if __name__ == "__main__":
    sys.exit(main())
