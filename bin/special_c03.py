"""C03: constant-time operations leak only argument lengths.

Real code: the non-test sources of the working tree are instrumented at check time (harness/ctinstr, typed AST) and
substituted with `go build -tags verif -overlay`; pairs of programs of equal public shape and different secrets are run,
each in a fresh process, and their observation traces are compared in lock step by TLC (spec/TraceCT.tla).
Design level: spec/Leak.tla (noninterference of the selection skeleton for all scalars of a toy size, with the named
deviations as vacuity tests)."""
import concurrent.futures as cf
import json
import os
import time

import suites
import vlib
from vlib import Infra

PROP = "C03"


def ensure_ctinstr():
    exe = os.path.join(vlib.VERIF, "build", "ctinstr")
    src = os.path.join(vlib.VERIF, "harness", "ctinstr", "main.go")
    if not os.path.exists(exe) or os.path.getmtime(exe) < os.path.getmtime(src):
        rc, out = vlib.run(["go", "build", "-o", exe, "."], 600, env=vlib.goenv(), cwd=os.path.dirname(src))
        if rc != 0:
            raise Infra("building ctinstr failed:\n" + out[-2000:])
    return exe


def instrument(work, name, tags=None, with_exit=False):
    out = os.path.join(work.dir, "instr-" + name)
    cmd = [ensure_ctinstr(), "-repo", vlib.repo(), "-out", out, "-rt", os.path.join(vlib.VERIF, "hooks", "verifrt", "rt.go")]
    if tags:
        cmd += ["-tags", tags]
    if with_exit:
        cmd += ["-exit"]
    rc, o = vlib.run(cmd, 600, env=vlib.goenv())
    if rc != 0:
        raise Infra("instrumentation failed (does the tree type-check?):\n" + o[-3000:])
    sites = json.load(open(os.path.join(out, "sites.json")))
    return os.path.join(out, "overlay.json"), {s["id"]: s for s in sites["sites"]}, o.strip()


def build_instrumented(work, name, tags=None, with_exit=False):
    overlay, sites, msg = instrument(work, name, tags, with_exit)
    t = "verif" + ("," + tags if tags else "")
    drv = vlib.build_driver(work, tags=t, name="edrv_" + name, extra=["-overlay", overlay])
    return drv, sites, msg


def site_of(obs, sites):
    try:
        sid = int("".join(ch for ch in obs.split("B")[0].split("I")[0].split("L")[0].split("K")[0].split("E")[0].split("A")[0] if ch.isdigit()))
        s = sites.get(sid)
        if s:
            return "%s:%d (%s, in %s)" % (os.path.relpath(s["file"], vlib.repo()), s["line"], s["kind"], s["func"])
    except Exception:
        pass
    return "?"


def run_ct(driver, progs, work, name):
    pj = os.path.join(work.dir, name + ".json")
    oj = os.path.join(work.dir, name + ".obs")
    json.dump(progs, open(pj, "w"))
    rc, out = vlib.run([driver, "ct", pj, oj], 1800)
    if rc != 0:
        raise Infra("instrumented driver failed (rc=%d):\n%s" % (rc, out[-2000:]))
    return oj


def asm_observations(work, tier):
    """machine-level observation of the assembly routines, which the source instrumenter cannot see: a small program
    (harness/cmd/asmct) built from the working tree calls Multiply and Square a fixed number of times on one operand pair
    and runs under `valgrind --tool=callgrind`; the observation is the number of instructions executed inside every function
    that comes from a .s file.  One run per pair of operand classes (secret values: zero limbs, the limbs of p, one, the
    bound, random); the runs are compared with the first one by TraceCT like any other pair of observation traces."""
    import random
    import re
    import shutil
    if not shutil.which("valgrind") or not shutil.which("callgrind_annotate"):
        return None, "valgrind/callgrind not found: the assembly is covered by the Asm machine only"
    exe = os.path.join(work.dir, "asmct")
    rc, out = vlib.run([os.path.join(vlib.VERIF, "bin", "build_driver"), vlib.repo(), exe], 600, env=dict(vlib.goenv(), VERIF_CMD="asmct"))
    if rc != 0:
        return None, "asmct does not build against this tree (%s): the assembly is covered by the Asm machine only" % out.strip().splitlines()[-1][:200]
    rng = random.Random(vlib.seed() * 65537 + 3)
    m = 2**51
    classes = [[0] * 5, [m - 19] + [m - 1] * 4, [1, 0, 0, 0, 0], [m + 2**37 - 1] + [m + 2**33 - 1] * 4, [m - 1] * 5,
               [rng.randrange(m) for _ in range(5)]]
    if tier != "quick":
        classes += [[0, 0, 0, 0, 1], [2 * (m - 19) % (m + 2**36)] + [m] * 4, [19, 0, 0, 0, 0], [rng.randrange(m) for _ in range(5)],
                    [rng.randrange(2**20) for _ in range(5)]]
    n = 20
    pairs = [(a, b) for a in classes for b in classes]

    def one(k):
        a, b = pairs[k]
        cg = os.path.join(work.dir, "cg-%d.out" % k)
        # the Go runtime's preemption signals can trip an assertion inside callgrind: no asynchronous preemption, one
        # processor, no collector; a crashed run is repeated
        env = dict(os.environ, GODEBUG="asyncpreemptoff=1", GOMAXPROCS="1", GOGC="off")
        for attempt in range(4):
            rc, o = vlib.run(["valgrind", "--tool=callgrind", "--callgrind-out-file=" + cg, exe, str(n)] + [str(x) for x in a + b], 600, env=env)
            if rc == 0:
                break
        if rc != 0:
            return None
        rc, o = vlib.run(["callgrind_annotate", "--threshold=100", cg], 120)
        os.remove(cg)
        obs = []
        for line in o.splitlines():
            mm = re.match(r"\s*([\d,]+) \([^)]*\)\s+(\S+\.s):(\S+)", line)
            if mm and os.path.realpath(mm.group(2)).startswith(os.path.realpath(vlib.repo()) + os.sep):
                obs.append("%s Ir=%s" % (mm.group(3), mm.group(1).replace(",", "")))
        return sorted(obs)
    with cf.ThreadPoolExecutor(max_workers=vlib.NCPU) as ex:
        res = list(ex.map(one, range(len(pairs))))
    if any(r is None for r in res) or not res[0]:
        return None, "callgrind produced no per-function counts for assembly routines (none in this build?)"
    ta, tb = os.path.join(work.dir, "asm-a.obs"), os.path.join(work.dir, "asm-b.obs")
    with open(ta, "w") as fa, open(tb, "w") as fb:
        for k in range(1, len(pairs)):
            for f, obs, (a, b) in ((fa, res[0], pairs[0]), (fb, res[k], pairs[k])):
                f.write(json.dumps({"prog": 1, "i": k, "op": "asm(Multiply,Square)", "err": 0, "panic": 0, "obs": obs,
                                    "operands": [[str(x) for x in a], [str(x) for x in b]]}) + "\n")
    return (ta, tb, pairs, res), "%d operand pairs x %d calls; per-call instruction counts of %s" % (len(pairs), n, ", ".join(x.split(" ")[0] for x in res[0]))


def check(tier):
    t0 = time.time()
    work = vlib.Work(PROP)
    try:
        mc = [vlib.model_check(work, "MC_Leak", "MC_Leak.cfg")]
        for c in ["MC_Leak_bug1.cfg", "MC_Leak_bug2.cfg", "MC_Leak_vartime.cfg"]:
            mc.append(vlib.model_check(work, "MC_Leak", c, expect_violation=True))
        asm = vlib.asm_model(work, "MC_Asm.cfg")
        mc.append(asm)
        if asm.get("failed") or "amd64_error" in asm["extracted"]:
            print("NOTE: assembly item: %s" % (asm.get("failed") or asm["extracted"].get("amd64_error")))
        asm_obs, asm_note = asm_observations(work, tier)
        builds = [("default", None), ("purego", "purego")]
        shapes = 4 if tier == "quick" else 24
        variants = 3 if tier == "quick" else 5
        fails, tot = [], {"events": 0, "conjuncts": 0, "states": 0, "transitions": 0}
        pairs, nprogs = 0, 0
        sample = None
        info = {}
        info["assembly_instruction_counts"] = asm_note
        if asm_obs:
            ta, tb, apairs, ares = asm_obs
            r = vlib.validate_trace(work, ta, "TraceCT.cfg", "TraceCT", 600, "3g", tb)
            for k in tot:
                tot[k] += r[k]
            for f in r["fails"]:
                f["build"] = "default"
                f["siteA"] = "assembly, operands %s" % json.dumps(apairs[0])
                f["siteB"] = "assembly, operands %s" % json.dumps(apairs[f["i"]])
                f["programA"] = {"asmct": [str(x) for x in apairs[0][0] + apairs[0][1]]}
                f["programB"] = {"asmct": [str(x) for x in apairs[f["i"]][0] + apairs[f["i"]][1]]}
                fails.append(f)
        with cf.ThreadPoolExecutor(max_workers=vlib.NCPU) as ex:
            jobs = []
            for bname, tags in builds:
                drv, sites, msg = build_instrumented(work, bname, tags)
                info[bname] = msg
                for sh in range(shapes):
                    shape_seed = vlib.seed() * 1000 + sh
                    base = suites.suite_C03(shape_seed, 1, tier if sh == 0 else "quick")
                    if sample is None:
                        sample = base
                    nprogs += len(base)
                    oa = run_ct(drv, base, work, "ct-%s-%d-0" % (bname, sh))
                    for v in range(1, variants):
                        other = suites.suite_C03(shape_seed, 1 + v, tier if sh == 0 else "quick")
                        ob = run_ct(drv, other, work, "ct-%s-%d-%d" % (bname, sh, v))
                        nprogs += len(other)
                        pairs += 1
                        jobs.append((bname, sites, base, other, ex.submit(vlib.validate_trace, work, oa, "TraceCT.cfg", "TraceCT", 1800, "6g", ob)))
                    # directed contrasts: the base secrets with a quarter of them replaced by special values
                    for c in range(2 if tier == "quick" else 4):
                        other = suites.suite_C03(shape_seed, 1, tier if sh == 0 else "quick", contrast=(vlib.seed() * 1000 + sh) * 4 + c)
                        ob = run_ct(drv, other, work, "ct-%s-%d-c%d" % (bname, sh, c))
                        nprogs += len(other)
                        pairs += 1
                        jobs.append((bname, sites, base, other, ex.submit(vlib.validate_trace, work, oa, "TraceCT.cfg", "TraceCT", 1800, "6g", ob)))
            for bname, sites, base, other, fu in jobs:
                r = fu.result()
                for k in tot:
                    tot[k] += r[k]
                for f in r["fails"]:
                    f["build"] = bname
                    f["siteA"] = site_of(f.get("obsA", ""), sites)
                    f["siteB"] = site_of(f.get("obsB", ""), sites)
                    pa = next((p for p in base if p["id"] == f["prog"]), None)
                    pb = next((p for p in other if p["id"] == f["prog"]), None)
                    f["programA"], f["programB"] = pa, pb
                    fails.append(f)
        infra = [f for f in fails if any(x["prop"] == "INFRA" for x in f["fails"])]
        if infra:
            raise Infra("observation traces out of step (the two programs of a pair do not have the same shape): %s" % json.dumps(
                [{k: v for k, v in f.items() if not k.startswith("program")} for f in infra[:2]]))
        own = [f for f in fails if any(x["prop"] == PROP for x in f["fails"])]
        cov = {
            "states": max(tot["states"] + sum(r["states"] for r in mc), 1),
            "transitions": max(tot["transitions"] + sum(r["transitions"] for r in mc), 1),
            "traces_validated_against_impl": nprogs,
            "samples": vlib.sample_programs(sample or []),
            "pairs_compared": pairs, "constant_time_events_compared": tot["events"], "observations_compared": tot["conjuncts"],
            "instrumentation": info, "builds": [b for b, _ in builds],
            "model_checking_runs": mc, "exhaustive": False,
            "explanation": "pairs of programs of equal public shape and different secrets run in fresh processes with the instrumented library; "
                           "TLC (TraceCT) requires equal observation sequences for every constant-time operation; Leak/MC_Leak is the toy-size "
                           "self-composition of the selection skeleton (all two-byte scalars) with three must-fail variants",
        }
        vlib.write_evidence(PROP, tier, cov, time.time() - t0, len(own), [
            "Go-source-level observation model: compiler-introduced branches, variable-latency multipliers and caches are outside the property as stated",
            "the assembly is opaque to the instrumenter; it is covered by the Asm machine (spec/Asm.tla: the extracted routines contain no jump, every memory operand is argument pointer + constant, no division) and by instruction counts of the real routines under callgrind for pairs of secret operand classes (amd64 only: the arm64 file cannot run here)",
            "declassified: the uninitialised-Point guard's short-circuit; exempt: VarTime operations, Scalar.SetCanonicalBytes, accept/reject outcomes of setters",
            "TLC, SANY; golang.org/x/tools/go/packages for the typed AST"])
        if own:
            seen = set()
            n = 0
            for f in own:
                key = (f["siteA"], f["op"])
                if key in seen:
                    continue
                seen.add(key)
                path = vlib.write_replay(PROP, n, {"property": PROP, "seed": vlib.seed(), "tier": tier, "build": f["build"],
                                                   "event": {k: v for k, v in f.items() if not k.startswith("program")},
                                                   "programA": f["programA"], "programB": f["programB"]})
                print("VIOLATION property=%s replay=%s" % (PROP, path))
                print("  %s (build %s): observation %d differs: %s at %s  vs  %s at %s" % (
                    f["op"], f["build"], f.get("at", -1), f.get("obsA"), f["siteA"], f.get("obsB"), f["siteB"]))
                n += 1
                if n >= 5:
                    break
            return 1
        print("OK property=%s tier=%s pairs=%d ct_events=%d observations=%d mc_runs=%d wall=%.0fs" % (
            PROP, tier, pairs, tot["events"], tot["conjuncts"], len(mc), time.time() - t0))
        return 0
    finally:
        work.cleanup()


def replay(path):
    data = json.load(open(path))
    work = vlib.Work(PROP + "-replay")
    if isinstance(data.get("programA"), dict) and "asmct" in data["programA"]:
        try:
            obs, note = asm_observations(work, "thorough")
            if not obs:
                print("replay: " + note)
                return 2
            ta, tb, apairs, ares = obs
            r = vlib.validate_trace(work, ta, "TraceCT.cfg", "TraceCT", 600, "3g", tb)
            own = [f for f in r["fails"] if any(x["prop"] == PROP for x in f["fails"])]
            for f in own[:3]:
                print("VIOLATION property=%s replay=%s" % (PROP, path))
                print("  assembly instruction counts differ: %s vs %s (operands %s vs %s)" % (f.get("obsA"), f.get("obsB"), apairs[0], apairs[f["i"]]))
            if not own:
                print("replay: equal instruction counts on the current tree")
            return 1 if own else 0
        finally:
            work.cleanup()
    try:
        tags = "purego" if data.get("build") == "purego" else None
        drv, sites, _ = build_instrumented(work, "r", tags)
        oa = run_ct(drv, [data["programA"]], work, "ra")
        ob = run_ct(drv, [data["programB"]], work, "rb")
        r = vlib.validate_trace(work, oa, "TraceCT.cfg", "TraceCT", 600, "4g", ob)
        own = [f for f in r["fails"] if any(x["prop"] == PROP for x in f["fails"])]
        for f in own[:3]:
            print("VIOLATION property=%s replay=%s" % (PROP, path))
            print("  %s: %s at %s vs %s at %s" % (f["op"], f.get("obsA"), site_of(f.get("obsA", ""), sites), f.get("obsB"), site_of(f.get("obsB", ""), sites)))
        if not own:
            print("replay: equal observation sequences on the current tree")
        return 1 if own else 0
    finally:
        work.cleanup()
