"""C18: concurrent use is race-free and first-use table construction happens once.

Design level: spec/Once.tla (PlusCal): all interleavings of G goroutines through sync.Once.Do and the table readers, safety
invariants and termination under fairness; the flag/CAS publication protocol (BUG_Once_Flag) must violate them.
Real code: concurrent cold-start scenarios, each in a fresh process: (a) with the instrumented library, every goroutine's
calls are validated against the sequential API specification (TraceApi) and the function entry/exit log, ordered by
sequence numbers taken under one mutex, is replayed against the Once state (TraceOnce); (b) the same scenarios under
`go build -race`: a race report is a violation."""
import concurrent.futures as cf
import json
import os
import random
import time

import special_c03
import suites
import vlib
from vlib import Infra

PROP = "C18"
WATCH = None


def once_ids(sites):
    ids = {}
    for s in sites.values():
        if s["kind"] == "func" and s["func"] == "basepointTable":
            ids["getterA"] = s["id"]
        if s["kind"] == "func" and s["func"] == "basepointNafTable":
            ids["getterB"] = s["id"]
        if s["kind"] == "funclit" and s["func"] == "basepointTable.func":
            ids["builderA"] = s["id"]
        if s["kind"] == "funclit" and s["func"] == "basepointNafTable.func":
            ids["builderB"] = s["id"]
    return ids if len(ids) == 4 else None


SCHED_LINE = __import__("re").compile(r'^"SCHED (.*)"$')


def turn_class(lab, nxt):
    """gate class of one step <<g, label, next label>> of an OnceSched behaviour (None: the step passes no gate)"""
    if lab == "Call":
        return None if nxt == "Done" else 1            # getter entry
    if lab == "Fast":
        return 2 if nxt == "BuildFlag" else None       # builder entry (flag protocol: the winner of the CAS)
    if lab == "Recheck":
        return 2 if nxt == "Build" else None           # builder entry
    if lab in ("Build", "BuildFlag"):
        if nxt == lab:
            return 3                                   # one build step
        return 4 if lab == "BuildFlag" else None       # builder exit (flag protocol); sync.Once: exit comes with Publish
    if lab == "Publish":
        return 4                                       # builder exit
    if lab == "Read":
        return 5                                       # getter exit
    if lab == "ReadLoop":
        return 6 if nxt == "ReadLoop" else None        # one read step
    if lab == "Return":
        return 7                                       # the goroutine runs the rest of its program (its other table use included)
    return None


def generate_schedules(work, count):
    """behaviours of spec/OnceSched.tla (sync.Once and its named deviations) from `tlc -simulate`, projected on gate steps"""
    out_scheds, seen, stats = [], set(), {}
    per = {"ok": max(2, count // 6), "flag": count, "nolock": count, "early": count}
    cand = {}
    for v in ("ok", "flag", "nolock", "early"):
        rc, out, gen, dist = vlib.tlc(work, "OnceSched", "OnceSched_%s.cfg" % v, workers=1, timeout=300, heap="2g",
                                      simulate=["-simulate", "num=%d" % 400, "-depth", "90", "-seed", str(vlib.seed() * 31 + 18)])
        if v == "ok" and "is violated" in out:
            raise Infra("OnceSched with every deviation off violates the invariants of Once:\n" + out[-3000:])
        lst = []
        for line in out.splitlines():
            m = SCHED_LINE.match(line)
            if not m:
                continue
            b = json.loads(vlib.unq(m.group(1)))
            turns = [[t[0], turn_class(t[1], t[2])] for t in b["turns"]]
            turns = [t for t in turns if t[1] is not None]
            key = (tuple(b["use"]), tuple(map(tuple, turns)))
            if key in seen or not any(u != "-" for u in b["use"]):
                continue
            seen.add(key)
            lst.append({"variant": v, "use": b["use"], "bad": bool(b["bad"]), "turns": turns})
        if not lst:
            raise Infra("tlc -simulate of OnceSched/%s produced no behaviours:\n%s" % (v, out[-2000:]))
        stats[v] = {"behaviours": len(lst), "violating_the_invariants_of_Once": sum(1 for x in lst if x["bad"])}
        cand[v] = lst
    # the behaviours in which a deviation breaks the invariants of Once first (they are the adversarial schedules), round robin
    order = []
    for v in ("flag", "nolock", "early"):
        cand[v].sort(key=lambda x: not x["bad"])
    k = 0
    while len(order) < count and any(cand.values()):
        for v in ("flag", "nolock", "early", "ok"):
            if cand[v] and (v != "ok" or k % 3 == 0) and len(order) < count:
                order.append(cand[v].pop(0))
        k += 1
    return order, stats


def gate_ids(sites):
    """the two getters are required for schedule replay, the builder literals are optional (a restructured construction
    has none: the first function entries inside the getter are the build steps then)"""
    g = {}
    for s in sites.values():
        if s["kind"] == "func" and s["func"] in ("basepointTable", "basepointNafTable"):
            g.setdefault("getters", []).append(s["id"])
        if s["kind"] == "funclit" and s["func"] in ("basepointTable.func", "basepointNafTable.func"):
            g.setdefault("builders", []).append(s["id"])
    return g if len(g.get("getters", [])) == 2 else None


def run_scenario(driver, scn, work, tag, gomaxprocs, race=False, chaos=0):
    sj = os.path.join(work.dir, "scn-%s-%d.json" % (tag, scn["id"]))
    tj = os.path.join(work.dir, "scn-%s-%d.ndjson" % (tag, scn["id"]))
    cj = os.path.join(work.dir, "scn-%s-%d.conc" % (tag, scn["id"]))
    json.dump(scn, open(sj, "w"))
    env = dict(os.environ, GOMAXPROCS=str(gomaxprocs), VERIF_WATCH=",".join(str(v) for v in (WATCH or [])))
    if race:
        env["GORACE"] = "halt_on_error=0 exitcode=66"
    if chaos:
        env["VERIF_CHAOS"] = str(chaos)
    rc, out = vlib.run([driver, "conc", sj, tj, cj], 600, env=env)
    return rc, out, tj, cj


def check(tier):
    t0 = time.time()
    work = vlib.Work(PROP)
    try:
        mc = [vlib.model_check(work, "Once", "Once.cfg"),
              vlib.model_check(work, "Once", "Once_bug.cfg", expect_violation=True)]
        if tier == "thorough":
            mc.append(vlib.model_check(work, "Once", "Once_G4.cfg", timeout=3000))
        if os.environ.get("VERIF_TIMING"):
            print("timing: model checking done at %.0fs" % (time.time() - t0))
        drv, sites, msg = special_c03.build_instrumented(work, "conc", None, with_exit=True)
        ids = once_ids(sites)
        global WATCH
        WATCH = sorted(ids.values()) if ids else []
        race_drv = vlib.build_driver(work, tags="verif", name="edrv_race", extra=["-race", "-overlay", os.path.join(work.dir, "instr-conc", "overlay.json")])
        if os.environ.get("VERIF_TIMING"):
            print("timing: drivers built at %.0fs" % (time.time() - t0))
        rng = random.Random(vlib.seed() * 65537 + 18)
        nscn = 10 if tier == "quick" else 48
        if os.environ.get("VERIF_C18_ONLY") == "gated":      # development aid: only the schedule replays (never used by a registered command)
            nscn = 0
        scns = [suites.conc_scenario(i + 1, rng, rng.choice([2, 3, 4, 8, 16])) for i in range(nscn)]
        fails, races = [], []
        tot = {"events": 0, "conjuncts": 0, "states": 0, "transitions": 0}
        once_logs = 0
        chaos_runs = [0]
        samples = []
        with cf.ThreadPoolExecutor(max_workers=vlib.NCPU) as ex:
            jobs = []
            gmps = [rng.choice([1, 2, 4, 16]) for _ in scns]
            lock = __import__("threading").Lock()
            once_n = [0]
            gate_info = {"schedules": 0, "turns": 0, "passed": 0, "stutter": 0, "adversarial": 0, "generated": None, "function_entries_inside_getters": None}

            def do_scn(k):
                scn, gmp = scns[k], gmps[k]
                rc, out, tj, cj = run_scenario(drv, scn, work, "i", gmp)
                if rc != 0:
                    raise Infra("scenario driver failed (rc=%d):\n%s" % (rc, out[-2000:]))
                jobs.append(("api", scn, ex.submit(vlib.validate_trace, work, tj)))
                if ids:
                    idf = os.path.join(work.dir, "ids-%d.json" % scn["id"])
                    open(idf, "w").write(json.dumps(ids) + "\n")
                    if os.path.getsize(cj) > 0:
                        once_n[0] += 1
                        jobs.append(("once", scn, ex.submit(vlib.tlc, work, "TraceOnce", "TraceOnce.cfg", 1, 600,
                                                            {"VERIF_TRACE": cj, "VERIF_ONCE_IDS": idf}, "2g")))
                # seeded cooperative schedules: one processor, yields at pseudo-randomly chosen function entries of the library
                warm = any(st["op"].startswith("Point.") and st["op"] != "Point.SetBytes" and st["op"] != "Point.SetExtendedCoordinates" for st in scn["prelude"])
                for c in range(1, ((2 if warm else 4) if tier == "quick" else 7)):
                    rc, out, tj2, _ = run_scenario(drv, scn, work, "c%d" % c, 1, chaos=vlib.seed() * 1000 + scn["id"] * 16 + c)
                    if rc != 0:
                        raise Infra("scenario driver failed under chaos scheduling (rc=%d):\n%s" % (rc, out[-2000:]))
                    jobs.append(("api", scn, ex.submit(vlib.validate_trace, work, tj2)))
                    chaos_runs[0] += 1
                # the same scenario under the race detector, a few times with different parallelism
                for gmp2 in ([4, 16] if tier == "quick" else [2, 4, 16]):
                    rc, out, _, _ = run_scenario(race_drv, scn, work, "r", gmp2, race=True)
                    if "DATA RACE" in out:
                        races.append((scn, out))
                    elif rc != 0:
                        raise Infra("race-build driver failed (rc=%d):\n%s" % (rc, out[-2000:]))
                if len(samples) < 2:
                    samples.append({"id": scn["id"], "goroutines": [[s["op"] for s in g["steps"]] for g in scn["goroutines"]]})
                return None
            # the scenarios are executed a few at a time (their processes compete for the processors, which only adds
            # schedule diversity); the validation jobs they submit run in the pool `ex`
            with cf.ThreadPoolExecutor(max_workers=4) as ex2:
                for r in ex2.map(do_scn, range(len(scns))):
                    pass
            # spec -> code: behaviours of OnceSched (sync.Once and its deviations) replayed as schedules into gated goroutines
            # of cold processes; the traces and the entry/exit log they produce are validated like those above
            gids = gate_ids(sites)
            if not gids:
                gate_info["generated"] = "getter functions not found (refactored names): schedule replay skipped"
            if gids:
                scheds, sched_stats = generate_schedules(work, 9 if tier == "quick" else 60)
                gate_info["generated"] = sched_stats

                # calibration: one cold single-goroutine process counts the function entries made inside each getter while it
                # constructs its table; the build-step gates of replay k are then placed at a fraction f of that count and at
                # every halving of the rest (f = 0: the first three entries instead), so that the other goroutines arrive in an
                # early, a middle or a late window of the construction.  Positions only choose WHERE a goroutine may be delayed.
                cal = suites.conc_scenario(1998, random.Random(vlib.seed() * 7919 + 1799), 1, first_ops=["base"])
                cal["schedule"] = [[1, 1], [1, 2], [1, 4], [1, 5], [1, 7], [1, 1], [1, 2], [1, 4], [1, 5], [1, 7]]      # through both getters, gates open
                cal["gate_wait_ms"] = 500
                cal["gate_getters"] = gids["getters"]
                cal["gate_builders"] = gids.get("builders", [])
                rc, out, tj, cj = run_scenario(drv, cal, work, "cal", 1)
                if rc != 0:
                    raise Infra("calibration run of the gated driver failed (rc=%d):\n%s" % (rc, out[-2000:]))
                counts = json.load(open(cj + ".counts")) if os.path.exists(cj + ".counts") else {}
                gate_info["function_entries_inside_getters"] = counts
                FRACTIONS = [15 / 16, 0, 7 / 8, 1 / 2, 31 / 32, 1 / 16, 3 / 4, 1 / 4]
                ordinal, seen_v = {}, {}
                for k, sc in enumerate(scheds):          # the j-th schedule of each variant gets the j-th fraction
                    ordinal[k] = seen_v.get(sc["variant"], 0)
                    seen_v[sc["variant"]] = ordinal[k] + 1

                def positions(k):
                    out = {}
                    f = FRACTIONS[ordinal[k] % len(FRACTIONS)]
                    for gid in [str(x) for x in gids["getters"]]:
                        n = counts.get(gid, 0)
                        if n < 16:      # nothing was constructed under this getter in the calibration run (the other one did it all)
                            n = max(list(counts.values()) + [0])
                        if n < 16:
                            continue
                        pos = [1, 2, 3] if f == 0 else [max(1, int(f * n))]
                        while len(pos) < 6 and pos[-1] < n - 1:
                            pos.append(max(pos[-1] + 1, n // 2) if f == 0 and len(pos) == 3 else pos[-1] + max(1, (n - pos[-1]) // 2))
                        out[gid] = pos
                    return out

                def do_gated(k):
                    sc = scheds[k]
                    srng = random.Random(vlib.seed() * 7919 + 1800 + k)
                    scn = suites.conc_scenario(2000 + 2 * k, srng, len(sc["use"]), first_ops=[{"A": "base", "B": "naf", "-": None}[u] for u in sc["use"]])
                    scn["schedule"] = sc["turns"]
                    scn["gate_getters"] = gids["getters"]
                    scn["gate_builders"] = gids.get("builders", [])
                    scn["gate_positions"] = positions(k)
                    scn["gate_wait_ms"] = 80        # a goroutine whose entry counter moves is busy and is waited for; this is the patience with a blocked one
                    scn["schedule_from"] = {"variant": sc["variant"], "use": sc["use"], "violates_Once_in_the_model": sc["bad"]}
                    rc, out, tj, cj = run_scenario(drv, scn, work, "g", srng.choice([1, 4, 16]))
                    if rc != 0:
                        raise Infra("gated scenario driver failed (rc=%d):\n%s" % (rc, out[-2000:]))
                    res = open(cj + ".sched").read() if os.path.exists(cj + ".sched") else ""
                    with lock:
                        gate_info["schedules"] += 1
                        gate_info["turns"] += len(sc["turns"])
                        gate_info["passed"] += res.count("p")
                        gate_info["stutter"] += res.count("s") + res.count("l")
                        gate_info["adversarial"] += 1 if sc["bad"] else 0
                        gate_info.setdefault("replays", []).append({"scenario": scn["id"], "variant": sc["variant"], "use": sc["use"], "violates_Once_in_the_model": sc["bad"],
                                                                    "fraction": FRACTIONS[ordinal[k] % len(FRACTIONS)],
                                                                    "turns": " ".join("%d:%s" % (t[0], "? GE BE BS BX GX RS END".split()[t[1]]) for t in sc["turns"]), "turn_results": res})
                    jobs.append(("api", scn, ex.submit(vlib.validate_trace, work, tj)))
                    if ids and os.path.getsize(cj) > 0:
                        idf = os.path.join(work.dir, "ids-%d.json" % scn["id"])
                        open(idf, "w").write(json.dumps(ids) + "\n")
                        once_n[0] += 1
                        jobs.append(("once", scn, ex.submit(vlib.tlc, work, "TraceOnce", "TraceOnce.cfg", 1, 600,
                                                            {"VERIF_TRACE": cj, "VERIF_ONCE_IDS": idf}, "2g")))
                with cf.ThreadPoolExecutor(max_workers=4) as ex3:
                    for r in ex3.map(do_gated, range(len(scheds))):
                        pass
            once_logs = once_n[0]
            if os.environ.get("VERIF_TIMING"):
                print("timing: scenarios executed at %.0fs" % (time.time() - t0))
            for kind, scn, fu in jobs:
                if kind == "api":
                    r = fu.result()
                    for k in tot:
                        tot[k] += r[k]
                    for f in r["fails"]:
                        bad = [x for x in f["fails"] if x["prop"] not in ("INFO",)]
                        if any(x["prop"] == "INFRA" and x["tag"] != "continuity" for x in bad):
                            raise Infra("trace of a concurrent scenario not understood: %s" % json.dumps({k: v for k, v in f.items()}))
                        # a continuity failure here means that an object changed between two calls of one goroutine without that
                        # goroutine writing it: the goroutine-private registers cannot, so a SHARED (read-only) argument was
                        # written by a call of some goroutine -- "shared arguments are only read" is violated
                        if bad:
                            f["scenario"] = scn
                            fails.append(f)
                else:
                    rc, out, gen, dist = fu.result()
                    tot["states"] += dist
                    tot["transitions"] += gen
                    if "VDONE" not in out:
                        raise Infra("TraceOnce did not complete:\n" + out[-2000:])
                    for line in out.splitlines():
                        m = vlib.VFAIL.match(line)
                        if m:
                            f = json.loads(vlib.unq(m.group(1)))
                            f["scenario"] = scn
                            fails.append(f)
        cov = {
            "states": max(tot["states"] + sum(r["states"] for r in mc), 1),
            "transitions": max(tot["transitions"] + sum(r["transitions"] for r in mc), 1),
            "traces_validated_against_impl": sum(len(s["goroutines"]) for s in scns),
            "samples": samples, "scenarios": len(scns), "once_logs_replayed": once_logs,
            "gated_schedule_replays": gate_info,
            "race_detector_runs": len(scns) * (2 if tier == "quick" else 3), "seeded_cooperative_schedules": chaos_runs[0],
            "events_validated": tot["events"], "once_function_ids": ids or "not found (refactored names): log replay skipped",
            "model_checking_runs": mc, "exhaustive": False,
            "explanation": "Once.tla: exhaustive interleavings for G goroutines (safety + termination under fairness), flag variant must fail; "
                           "real code: fresh-process scenarios with 2..16 goroutines and GOMAXPROCS 1..16; per-goroutine traces validated by TraceApi, "
                           "entry/exit logs by TraceOnce, plus race-detector runs of the same scenarios",
        }
        nviol = len(fails) + len(races)
        vlib.write_evidence(PROP, tier, cov, time.time() - t0, nviol, [
            "a finite set of real schedules (whatever the Go scheduler produced for fresh processes at several GOMAXPROCS values) -- not all interleavings; all interleavings are explored only in the Once model",
            "the Go memory model is represented by the race detector (no false positives), not by the specification",
            "nothing is derived from timing; sequence numbers are taken under the recorder's mutex",
            "TLC, SANY, the Go toolchain and race runtime"])
        if nviol:
            n = 0
            for f in fails[:3]:
                path = vlib.write_replay(PROP, n, {"property": PROP, "seed": vlib.seed(), "kind": "value-or-protocol",
                                                   "event": {k: v for k, v in f.items() if k != "scenario"}, "scenario": f["scenario"]})
                print("VIOLATION property=%s replay=%s" % (PROP, path))
                print("  concurrent scenario %d: %s %s" % (f["scenario"]["id"], f.get("op"), f.get("fails")))
                n += 1
            for scn, out in races[:3]:
                path = vlib.write_replay(PROP, n, {"property": PROP, "seed": vlib.seed(), "kind": "race", "scenario": scn, "report": out[:6000]})
                print("VIOLATION property=%s replay=%s" % (PROP, path))
                print("  data race reported by the race detector in scenario %d" % scn["id"])
                n += 1
            return 1
        print("OK property=%s tier=%s scenarios=%d goroutine_traces=%d events=%d once_logs=%d race_runs=%d mc_runs=%d wall=%.0fs" % (
            PROP, tier, len(scns), cov["traces_validated_against_impl"], tot["events"], once_logs, cov["race_detector_runs"], len(mc), time.time() - t0))
        return 0
    finally:
        work.cleanup()


def replay(path):
    data = json.load(open(path))
    work = vlib.Work(PROP + "-replay")
    try:
        if os.environ.get("VERIF_TIMING"):
            print("timing: model checking done at %.0fs" % (time.time() - t0))
        drv, sites, msg = special_c03.build_instrumented(work, "conc", None, with_exit=True)
        race_drv = vlib.build_driver(work, tags="verif", name="edrv_race", extra=["-race", "-overlay", os.path.join(work.dir, "instr-conc", "overlay.json")])
        scn = data["scenario"]
        global WATCH
        WATCH = sorted((once_ids(sites) or {}).values())
        g = gate_ids(sites)
        if scn.get("schedule") and g:       # a replayed schedule: the gate functions are looked up again in the current sources
            scn["gate_getters"], scn["gate_builders"] = g["getters"], g.get("builders", [])
        bad = 0
        for k in range(10):
            rc, out, tj, cj = run_scenario(race_drv, scn, work, "r%d" % k, 16, race=True)
            if "DATA RACE" in out:
                bad += 1
                break
            rc, out, tj, cj = run_scenario(drv, scn, work, "i%d" % k, [1, 2, 4, 16][k % 4])
            r = vlib.validate_trace(work, tj)
            if any(x["prop"] not in ("INFO",) for f in r["fails"] for x in f["fails"]):
                bad += 1
                break
        if bad:
            print("VIOLATION property=%s replay=%s" % (PROP, path))
            return 1
        print("replay: 10 runs of the scenario showed no wrong result and no race on the current tree")
        return 0
    finally:
        work.cleanup()
