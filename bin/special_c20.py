"""C20: optimised (amd64 assembly) and portable (purego) builds agree.

Two drivers are built from the working tree (default tags, -tags purego); the same programs run in both; both traces
are validated against the specification (TraceApi) and against each other by the product monitor TracePair."""
import concurrent.futures as cf
import json
import os
import time

import suites
import vlib
from vlib import Infra

PROP = "C20"


def programs(tier):
    progs = suites.generate("C20", tier, vlib.seed())
    for other, k in (("C09", 60), ("C10", 40), ("C16", 30), ("C11", 60)):
        more = suites.generate(other, "quick", vlib.seed() + 5)
        if tier == "quick":
            more = more[:: max(1, len(more) // k)]
        base = max(p["id"] for p in progs) + 1
        for i, p in enumerate(more):
            p["id"] = base + i
            p["note"] = "[from %s] %s" % (other, p.get("note", ""))
        progs += more
    return progs


def split(progs, n):
    buckets = [[] for _ in range(n)]
    for i, p in enumerate(progs):
        buckets[i % n].append(p)
    return [b for b in buckets if b]


def run_pair(work, dA, dB, progs, label):
    fails = []
    tot = {"programs": len(progs), "events": 0, "conjuncts": 0, "states": 0, "transitions": 0, "traces": 0}
    api_fail = {"default": [], "purego": []}
    buckets = split(progs, min(vlib.NCPU // 2, max(1, sum(len(p["steps"]) for p in progs) // 200 + 1)))
    byid = {p["id"]: p for p in progs}
    jobs = []
    with cf.ThreadPoolExecutor(max_workers=vlib.NCPU) as ex:
        for i, b in enumerate(buckets):
            ta = vlib.run_driver(dA, b, work, "%s-A%d" % (label, i))
            tb = vlib.run_driver(dB, b, work, "%s-B%d" % (label, i))
            jobs.append(("pair", ex.submit(vlib.validate_trace, work, ta, "TracePair.cfg", "TracePair", 1800, "4g", tb)))
            jobs.append(("default", ex.submit(vlib.validate_trace, work, ta)))
            jobs.append(("purego", ex.submit(vlib.validate_trace, work, tb)))
        for kind, fu in jobs:
            r = fu.result()
            tot["traces"] += 1
            for k in ("events", "conjuncts", "states", "transitions"):
                tot[k] += r[k]
            for f in r["fails"]:
                f["program"] = byid.get(f["prog"])
                if kind == "pair":
                    fails.append(f)
                else:
                    if any(x["prop"] not in ("INFO",) for x in f["fails"]):
                        api_fail[kind].append(f)
    return fails, tot, api_fail


def check(tier):
    t0 = time.time()
    work = vlib.Work(PROP)
    try:
        dA = vlib.build_driver(work, name="edrv_default")
        dB = vlib.build_driver(work, tags="purego", name="edrv_purego")
        mc = [vlib.model_check(work, "MC_LimbBounds", "MC_LimbBounds_real.cfg"),
              vlib.model_check(work, "MC_LimbBounds", "MC_LimbBounds_real_bug.cfg", expect_violation=True)]
        asm = vlib.asm_model(work, "MC_Asm.cfg" if tier == "quick" else "MC_Asm_full.cfg")
        mc.append(asm)
        progs = programs(tier)
        if asm.get("failed") in ("InvMul", "InvSq") and asm.get("a"):
            # the Asm machine found operands on which the assembly of the working tree misbehaves: confirm on the real builds
            import progdsl
            cp = progdsl.Prog(max(p["id"] for p in progs) + 1, "operands of the Asm-model counterexample (%s)" % asm["failed"])
            cp.inject("e0", asm["a"])
            cp.inject("e1", asm["b"] or [0] * 5)
            cp.op("Elem.Multiply", r="e2", a=["e0", "e1"])
            cp.op("Elem.Square", r="e3", a=["e0"])
            cp.op("Elem.Bytes", r="e2", o=["b0"])
            cp.op("Elem.Bytes", r="e3", o=["b1"])
            progs.append(cp.to_json())
        elif asm.get("failed"):
            print("NOTE: the Asm model reports %s for the arm64 routine of the working tree (it cannot be executed on this machine; "
                  "recorded in the evidence, no verdict)" % asm["failed"])
        fails, tot, api_fail = run_pair(work, dA, dB, progs, "c20")
        tot["states"] += sum(r["states"] for r in mc)
        tot["transitions"] += sum(r["transitions"] for r in mc)
        infra = [f for f in fails if any(x["prop"] == "INFRA" for x in f["fails"])]
        if infra:
            raise Infra("the two traces are out of step: %s" % json.dumps([{k: v for k, v in f.items() if k != "program"} for f in infra[:2]]))
        own = [f for f in fails if any(x["prop"] == PROP for x in f["fails"])]
        if asm.get("failed") in ("InvMul", "InvSq") and not own and not api_fail["default"]:
            raise Infra("the Asm model rejects the assembly of the working tree (%s, a=%s b=%s) but the real builds agree on these operands: "
                        "a defect of spec/Asm.tla or of the extraction" % (asm["failed"], asm.get("a"), asm.get("b")))
        drift = sum(1 for f in fails if all(x["prop"] == "INFO" for x in f["fails"]))
        cov = {
            "states": max(tot["states"], 1), "transitions": max(tot["transitions"], 1),
            "traces_validated_against_impl": 2 * len(progs),
            "samples": vlib.sample_programs(progs),
            "events_validated": tot["events"], "conjuncts_evaluated": tot["conjuncts"],
            "builds": ["default (amd64 assembly feMul/feSquare)", "-tags purego (portable Go)"],
            "events_failing_the_api_spec": {k: len(v) for k, v in api_fail.items()},
            "refinement_drift_events": drift, "model_checking_runs": mc,
            "exhaustive": False,
            "explanation": "every program is executed by two drivers built from the working tree; TLC consumes the two traces in lock step "
                           "(TracePair) and each trace on its own (TraceApi); states = one per consumed trace line over all TLC runs",
        }
        vlib.write_evidence(PROP, tier, cov, time.time() - t0, len(own), vlib_assume())
        if own:
            for n, f in enumerate(own[:5]):
                tags = sorted(x["tag"] for x in f["fails"] if x["prop"] == PROP)
                path = vlib.write_replay(PROP, n, {"property": PROP, "seed": vlib.seed(), "tier": tier, "tags": tags,
                                                   "event": {k: v for k, v in f.items() if k != "program"}, "program": f["program"]})
                print("VIOLATION property=%s replay=%s" % (PROP, path))
                print("  builds disagree at event %s #%d of program %s (%s): %s" % (f["op"], f["i"], f["prog"], (f["program"] or {}).get("note", ""), tags))
            return 1
        print("OK property=%s tier=%s programs=%d (x2 builds) events=%d conjuncts=%d drift=%d wall=%.0fs" % (
            PROP, tier, len(progs), tot["events"], tot["conjuncts"], drift, time.time() - t0))
        return 0
    finally:
        work.cleanup()


def vlib_assume():
    return ["both builds are produced by the same Go toolchain from the same working tree; the machine is amd64 so the default build uses fe_amd64.s",
            "the arm64 assembly (carryPropagate) cannot be executed here; it is covered only by the Asm model where present",
            "TLC, SANY, the BigNat override (cross-checked in setup)"]


def replay(path):
    data = json.load(open(path))
    work = vlib.Work(PROP + "-replay")
    try:
        dA = vlib.build_driver(work, name="edrv_default")
        dB = vlib.build_driver(work, tags="purego", name="edrv_purego")
        fails, tot, _ = run_pair(work, dA, dB, [data["program"]], "c20r")
        own = [f for f in fails if any(x["prop"] == PROP for x in f["fails"])]
        for f in own:
            print("VIOLATION property=%s replay=%s" % (PROP, path))
        if not own:
            print("replay: the two builds agree on this program (%d events)" % tot["events"])
        return 1 if own else 0
    finally:
        work.cleanup()
