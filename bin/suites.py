# Program suites: for every property, the classes of inputs / receiver states /
# aliasing patterns / histories listed in DESIGN.md section 8 ("R"), turned into
# driver programs.  The suites only choose WHAT to run; what the right answer is
# comes from the TLA+ specification when the recorded trace is validated.
import itertools
import random

from progdsl import *

PAL51 = [0, 1, 2, 19, 2**51 - 1, 2**51 - 2, 2**51 - 19, 2**51 - 20, 2**50, 2**32, 2**36]


def struct_val(rng):
    """a value < 2^255 whose 51-bit limbs come from a small palette (carry / reduction boundaries)"""
    v = 0
    for i in range(5):
        c = rng.randrange(8)
        if c < 5:
            l = rng.choice(PAL51)
        elif c == 5:
            l = rng.randrange(2**20)
        elif c == 6:
            l = 2**51 - 1 - rng.randrange(2**20)
        else:
            l = rng.randrange(2**51)
        v |= l << (51 * i)
    return v


def sparse_val(rng):
    """k * 2^e + delta for e at / next to a limb boundary, small k, small delta (possibly negative, mod p)"""
    e = rng.choice([0, 50, 51, 52, 101, 102, 103, 152, 153, 154, 203, 204, 205, 253, 254]) if rng.randrange(2) else rng.randrange(255)
    k = rng.randrange(1, 40)
    dlt = rng.randrange(-40, 41) if rng.randrange(2) else 0
    return (k * 2**e + dlt) % P


def chain_val(rng):
    """a value adjacent to a multiple of the limb radix: (U << 51 j) + delta with U of random size and a small
    delta of either sign, i.e. low limbs all zeros / all ones: carry and borrow chains cross limb boundaries"""
    j = rng.randrange(1, 5)
    bl = rng.randrange(0, 256 - 51 * j)
    U = rng.randrange(2**bl) if bl else 0
    dlt = rng.randrange(-40, 41)
    return ((U << (51 * j)) + dlt) % P


def field_val(rng):
    c = rng.randrange(10)
    if c < 3:
        return rnd_field(rng) % P
    if c < 5:
        return struct_val(rng) % P
    if c < 7:
        return sparse_val(rng)
    if c < 9:
        return chain_val(rng)
    return rng.randrange(P)


def point_with_x(x):
    """a curve point with the given x (and either y), or None"""
    x %= P
    y2 = (1 + x * x) * inv(1 - D * x * x) % P
    y = sqrt(y2)
    if y is None:
        return None
    return (x, y)


def special_point(rng):
    """a curve point (x, y) with a structured / small / boundary coordinate"""
    for _ in range(200):
        c = rng.randrange(6)
        if c == 0:
            v = rng.randrange(0, 70)
        elif c == 1:
            v = P - rng.randrange(1, 70)
        elif c == 2:
            v = sparse_val(rng)
        elif c == 3:
            v = chain_val(rng)
        else:
            v = struct_val(rng) % P
        if rng.randrange(2) == 0:
            pt = point_with_x(v)
            if pt is not None:
                if rng.randrange(2):
                    pt = (pt[0], (P - pt[1]) % P)
                return pt
        else:
            if y_on_curve(v):
                x = recover_x(v, rng.randrange(2))
                return (x, v % P)
    return BPT


def rand_point(rng):
    while True:
        y = rng.randrange(P)
        if y_on_curve(y):
            return (recover_x(y, rng.randrange(2)), y)


TORS_PTS = [dec_point(t) for t in TORSION]


def any_point(rng):
    """(x, y) of a random class"""
    c = rng.randrange(12)
    if c == 0:
        return BPT
    if c == 1:
        return (0, 1)
    if c == 2:
        return rng.choice(TORS_PTS)
    if c in (3, 4):
        return special_point(rng)
    if c == 5:
        return padd(rand_point(rng), rng.choice(TORS_PTS))      # mixed order
    if c == 6:
        return pmul(rng.randrange(1, 50), BPT)
    if c == 7:
        return pmul(8, rand_point(rng))                          # prime-order subgroup
    return rand_point(rng)


def noncanon_encs():
    """the accepted non-canonical encodings: y in [p, 2^255) on the curve, both sign bits; x = 0 with the sign bit set"""
    out = []
    for y in range(19):
        for sign in (0, 1):
            out.append(le((P + y) | (sign << 255)))
    out.append(le(1 | (1 << 255)))
    out.append(le((P - 1) | (1 << 255)))
    out.append(le((P + 1) | (1 << 255)))
    return out


# ---------------------------------------------------------------------------
# realising a point in a register, in a chosen representation

def load_point(p, reg, pt, rng, how=None, scratch=("e4", "e5", "e6", "e7")):
    """make register `reg` hold the affine point pt, in a representation chosen by `how`"""
    x, y = pt
    if how is None:
        how = rng.choice(["bytes", "bytes", "ext", "ext-ncl", "ext-lam", "bytes-nc"])
    if how == "bytes-nc" and not (y < 19 or x == 0):
        how = "bytes"
    if how == "bytes":
        return p.point_from_bytes(reg, enc_point(x, y))
    if how == "bytes-nc":
        if y < 19 and rng.randrange(2) == 0:
            v = (P + y) | ((x & 1) << 255)
        elif x == 0:
            v = y | (1 << 255)
        else:
            v = (P + y) | ((x & 1) << 255)
        return p.point_from_bytes(reg, le(v))
    lam = 1
    if how.startswith("ext-unit"):
        # normalised on another coordinate: "ext-unit-x" makes X exactly 1, "ext-unit-y-" makes Y exactly -1, ...
        c = {"x": x, "y": y, "t": x * y % P}[how[9]]
        if c % P == 0:
            how = "ext-lam"
        else:
            lam = inv(c) * (P - 1 if how.endswith("-") else 1) % P
            how = "ext"
            vals = [x * lam % P, y * lam % P, lam % P, x * y * lam % P]
            for r, v in zip(scratch, vals):
                p.elem_from_int(r, v)
            return p.op("Point.SetExtendedCoordinates", r=reg, a=list(scratch))
    if how in ("ext-lam", "ext-ncl"):
        lam = rng.choice([2, P - 1, rng.randrange(1, P), rng.randrange(1, 2**20)])
        # representations normalised on another coordinate: X, Y or T (instead of Z) equal to exactly 1, or to -1
        units = [c for c in (x, y, x * y % P) if c % P != 0]
        if units and rng.randrange(3) == 0:
            lam = inv(rng.choice(units)) * rng.choice([1, 1, P - 1]) % P
    vals = [x * lam % P, y * lam % P, lam % P, x * y * lam % P]
    for r, v in zip(scratch, vals):
        if how == "ext-ncl":
            p.inject(r, limb_form(rng, v))
        else:
            p.elem_from_int(r, v)
    return p.op("Point.SetExtendedCoordinates", r=reg, a=list(scratch))


def prep_receiver(p, reg, rng, kind):
    """put the receiver register into a prior state: zero value, identity, decoded (Z=1), arithmetic result (Z#1)"""
    if kind == "zero":
        return
    if kind == "identity":
        p.op("NewIdentityPoint", o=[reg])
    elif kind == "generator":
        p.op("NewGeneratorPoint", o=[reg])
    elif kind == "decoded":
        load_point(p, reg, rand_point(rng), rng, "bytes")
    elif kind == "arith":
        load_point(p, reg, rand_point(rng), rng, "bytes")
        p.op("Point.Add", r=reg, a=[reg, reg])
    elif kind == "torsion":
        load_point(p, reg, rng.choice(TORS_PTS), rng, "bytes")
    else:
        raise ValueError(kind)


RECV_KINDS = ["zero", "identity", "generator", "decoded", "arith", "torsion"]


def load_scalar(p, reg, k, rng, how=None):
    how = how or rng.choice(["canon", "canon", "wide"])
    if how == "canon":
        return p.scalar_canon(reg, k)
    # a 64-byte string congruent to k
    m = rng.randrange(0, (2**512 - 1 - k) // L)
    return p.scalar_wide(reg, le(k + m * L, 64))


RINV = pow(2**256, L - 2, L)
PAL64 = [0, 1, 2**32, 2**32 - 1, 2**64 - 1, 2**63, 2**31]


def mont_struct_scalar(rng):
    """a scalar whose Montgomery-domain words (value * 2^256 mod l) are structured"""
    while True:
        w = 0
        for i in range(4):
            c = rng.randrange(3)
            word = rng.choice(PAL64) if c < 2 else rng.randrange(2**64)
            w |= word << (64 * i)
        w %= 2**253
        if w < L:
            return w * RINV % L


def mont_edge_scalar(rng):
    """a scalar whose Montgomery-domain representative w = value * 2^256 mod l sits at an edge of [0, l):
    next to 0, next to l, or in the top window [2^252, l) (where w is reduced but has bit 252 set)"""
    c = rng.randrange(5)
    top = L - 2**252
    if c == 0:
        w = rng.randrange(0, 2**16)
    elif c == 1:
        w = L - 1 - rng.randrange(0, 2**16)
    elif c == 2:
        w = 2**252 + rng.randrange(0, top)
    elif c == 3:
        w = 2**252 + rng.choice([0, 1, 2, top - 1, top - 2, rng.randrange(2**64)])
    else:
        w = 2**252 - 1 - rng.randrange(0, 2**16)
    return w * RINV % L


def bitlen_scalar(rng, cap=253):
    """a scalar of a random bit length k <= cap: 2^k - 1 (all ones), 2^k, 2^k + 1, 0xf8..01-like, or random k-bit"""
    k = rng.randrange(1, cap)
    c = rng.randrange(5)
    if c == 0:
        v = 2**k - 1
    elif c == 1:
        v = 2**k
    elif c == 2:
        v = 2**k + 1
    elif c == 3:
        v = (0x1f << max(0, k - 5)) | 1
    else:
        v = rng.randrange(2**(k - 1), 2**k) if k > 1 else 1
    return v % L


def scalar_val(rng):
    if rng.randrange(6) == 0:
        return bitlen_scalar(rng)
    c = rng.randrange(12)
    if c < 6:
        return rnd_scalar(rng)
    if c < 8:
        return mont_struct_scalar(rng)
    if c < 10:
        return mont_edge_scalar(rng)
    return rng.randrange(L)


# ---------------------------------------------------------------------------
class Gen:
    def __init__(self, seed, first_id=1):
        self.rng = random.Random(seed)
        self.progs = []
        self.next = first_id

    def new(self, note):
        p = Prog(self.next, note)
        self.next += 1
        self.progs.append(p)
        return p


SHIM = False          # set by bin/check when the driver could be built with the in-package shim


def shim_programs(g, tier):
    """recodings and lookup tables of the real code against spec/Recode and spec/ScalarMul (informational: drift)"""
    rng = g.rng
    n = 6 if tier == "quick" else 60
    for it in range(n):
        p = g.new("C01 shim: recodings and tables")
        for k in range(6):
            load_scalar(p, "s0", scalar_val(rng), rng, "canon")
            p.op("Shim.Radix16", a=["s0"])
            p.op("Shim.NAF", a=["s0"], n=rng.choice([5, 8]))
        load_point(p, "p0", any_point(rng), rng)
        p.op("Shim.ProjTable", a=["p0"])
        for x in rng.sample(range(-8, 9), 4):
            p.op("Shim.ProjSelect", a=["p0"], n=x % 2**64)
        for k in range(4):
            p.op("Shim.BaseTable", n=rng.randrange(256))
            p.op("Shim.BaseNafTable", n=rng.randrange(64))


def long_alias_programs(g, tier, tag):
    """multi-scalar calls with many terms and the receiver aliased to an early, a middle and the last term"""
    rng = g.rng
    # long calls with the receiver aliased to an early, a middle and the last term
    for alg in ["Point.MultiScalarMult", "Point.VarTimeMultiScalarMult"]:
        for n in ([17, 33] if tier == "quick" else [9, 16, 17, 18, 32, 33, 40, 65]):
            for pos in sorted({0, n // 2, n - 1}):
                p = g.new("%s %s n=%d receiver = points[%d]" % (tag, alg, n, pos))
                for j in range(4):
                    load_point(p, "p%d" % j, any_point(rng), rng)
                    load_scalar(p, "s%d" % j, rng.randrange(2**24) if j else scalar_val(rng), rng)
                ps = [rng.choice(["p1", "p2", "p3"]) for _ in range(n)]
                ps[pos] = "p0"
                p.op(alg, r="p0", ss=[rng.choice(["s0", "s1", "s2", "s3"]) if i == pos else rng.choice(["s1", "s2", "s3"]) for i in range(n)], ps=ps)
                p.op("Point.Bytes", r="p0", o=["b0"])


def digit_sweep_programs(g, tier, tag):
    """scalars whose recodings put a chosen digit at a chosen position: every radix-16 digit value in every position class
    (constant-nibble scalars), one digit alone at each position (d * 16^i: entry d of window table i/2 of the fixed-base
    table and of the per-point table), one odd digit of the width-8 / width-5 NAF alone at a position (d * 2^i and
    2^(i+8) - d * 2^i: entry (d-1)/2 of the base-point NAF table, either sign).  A single wrong table entry, or a digit
    value mishandled at one position, is then met deterministically instead of with probability 1/16 per random scalar"""
    rng = g.rng
    const = [int(("%x" % nib) * 63, 16) for nib in range(1, 16)]
    single = [(d * 16**i) % L for i in range(63) for d in (1, 7, 8, 9, 15)]
    naf = [(d * 2**i) % L for d in range(1, 128, 2) for i in (rng.randrange(0, 240),)] + \
          [(2**(i + 8) - d * 2**i) % L for d in range(1, 128, 2) for i in (rng.randrange(0, 240),)]
    if tier == "quick":
        rng.shuffle(single)
        rng.shuffle(naf)
        vals = const + single[:9] + naf[:16]
    else:
        vals = const + single + naf
    for c in range(0, len(vals), 8):
        p = g.new("%s digit sweep" % tag)
        load_point(p, "p1", any_point(rng), rng)
        load_scalar(p, "s1", rng.randrange(1, 2**16), rng, "canon")
        for v in vals[c:c + 8]:
            p.scalar_canon("s0", v)
            p.op("Point.ScalarBaseMult", r="p0", a=["s0"])
            p.op("Point.ScalarMult", r="p2", a=["s0", "p1"])
            p.op("Point.VarTimeDoubleScalarBaseMult", r="p3", a=["s1", "p1", "s0"])
            p.op("Point.VarTimeDoubleScalarBaseMult", r="p3", a=["s0", "p1", "s1"])
            p.op("Point.MultiScalarMult", r="p4", ss=["s0"], ps=["p1"])
            p.op("Point.VarTimeMultiScalarMult", r="p4", ss=["s0", "s1"], ps=["p1", "p1"])


def suite_C01(g, tier):
    rng = g.rng
    if SHIM:
        shim_programs(g, tier)
    cold_programs(g, tier, "C01")
    stale_state_programs(g, tier, "C01")
    digit_sweep_programs(g, tier, "C01")
    n_single = 10 if tier == "quick" else 120
    algs = ["Point.ScalarMult", "Point.ScalarBaseMult", "Point.VarTimeDoubleScalarBaseMult"]
    for it in range(n_single):
        for alg in algs:
            for kind in (RECV_KINDS + ["alias"]) if it % 2 == 0 else [rng.choice(RECV_KINDS + ["alias"])]:
                p = g.new("C01 %s recv=%s" % (alg, kind))
                load_point(p, "p1", any_point(rng), rng)
                load_scalar(p, "s0", scalar_val(rng), rng)
                load_scalar(p, "s1", scalar_val(rng), rng)
                r = "p0"
                if kind == "alias":
                    r = "p1"
                else:
                    prep_receiver(p, "p0", rng, kind)
                if alg == "Point.ScalarMult":
                    p.op(alg, r=r, a=["s0", "p1"])
                elif alg == "Point.ScalarBaseMult":
                    p.op(alg, r=r, a=["s0"])
                else:
                    p.op(alg, r=r, a=["s0", "p1", "s1"])
                p.op("Point.Bytes", r=r, o=["b0"])
    # multi-scalar
    ns = [0, 1, 2, 3] if tier == "quick" else [0, 1, 2, 3, 4]
    reps = 1 if tier == "quick" else 12
    for _ in range(reps):
        for alg in ["Point.MultiScalarMult", "Point.VarTimeMultiScalarMult"]:
            for n in ns:
                kinds = RECV_KINDS + (["alias%d" % j for j in range(n)])
                if tier == "quick":
                    kinds = ["zero", rng.choice(["identity", "generator"]), rng.choice(["decoded", "arith", "torsion"])] + kinds[6:]
                for kind in kinds:
                    p = g.new("C01 %s n=%d recv=%s" % (alg, n, kind))
                    pregs = ["p%d" % (1 + j) for j in range(n)]
                    sregs = ["s%d" % j for j in range(n)]
                    for j in range(n):
                        load_point(p, pregs[j], any_point(rng), rng)
                        load_scalar(p, sregs[j], scalar_val(rng), rng)
                    r = "p0"
                    if kind.startswith("alias"):
                        r = pregs[int(kind[5:])]
                    else:
                        prep_receiver(p, "p0", rng, kind)
                    if n >= 2 and rng.randrange(3) == 0:
                        pregs[1] = pregs[0]          # the same point twice
                    if n >= 2 and rng.randrange(3) == 0:
                        sregs[1] = sregs[0]
                    p.op(alg, r=r, ss=sregs, ps=pregs)
                    p.op("Point.Bytes", r=r, o=["b0"])
    # every small-order point (and a mixed-order one) x small scalars x every algorithm, second scalar 0 / 1 / random
    smalls = [0, 1, 2, 3, 4, 5, 6, 7, 8, 9, 12, 16, 17, 24, 40, 64]
    if tier == "quick":
        smalls = [0, 2, 4, 8, 16, 40] + rng.sample([1, 3, 5, 6, 7, 9, 12, 17, 24, 64], 2)
    bases = list(TORS_PTS) + [padd(BPT, TORS_PTS[4]), padd(rand_point(rng), TORS_PTS[1])]
    for A in bases:
        p = g.new("C01 small scalars on a point with a small-order component")
        load_point(p, "p1", A, rng, rng.choice(["bytes", "ext-lam"]))
        p.scalar_canon("s1", 0)
        p.scalar_canon("s2", 1)
        load_scalar(p, "s3", scalar_val(rng), rng, "canon")
        for a in smalls:
            p.scalar_canon("s0", a)
            r = rng.choice(["p0", "p2", "p3"])
            p.op("Point.VarTimeDoubleScalarBaseMult", r=r, a=["s0", "p1", "s1"])
            p.op("Point.VarTimeDoubleScalarBaseMult", r=r, a=["s0", "p1", rng.choice(["s2", "s3"])])
            p.op("Point.ScalarMult", r=r, a=["s0", "p1"])
            p.op("Point.VarTimeMultiScalarMult", r=r, ss=["s0"], ps=["p1"])
            p.op("Point.MultiScalarMult", r=r, ss=["s0", "s1"], ps=["p1", "p1"])
            if a % 3 == 0:
                p.op("Point.VarTimeMultiScalarMult", r=r, ss=["s0", "s3", "s0"], ps=["p1", "p1", "p1"])
                p.op("Point.Bytes", r=r, o=["b0"])
    # larger term counts (chunked / batched implementations have remainders), through repeated registers
    sizes = [5, 7, 9, 17] if tier == "quick" else [5, 6, 7, 9, 12, 15, 16, 17, 31, 32, 33, 64, 65, 127, 128, 129]
    # term counts at integer-width boundaries, with identical tiny scalars (every term contributes to the same digit positions)
    for alg in ["Point.MultiScalarMult", "Point.VarTimeMultiScalarMult"]:
        for n in ([255, 256, 257] if tier == "quick" else [255, 256, 257, 511, 512, 513, 1024]):
            p = g.new("C01 %s n=%d identical tiny scalars" % (alg, n))
            for j in range(3):
                load_point(p, "p%d" % (1 + j), any_point(rng), rng)
            p.scalar_canon("s0", rng.choice([1, 3, 33, 5]))
            p.scalar_canon("s1", 1)
            prep_receiver(p, "p0", rng, rng.choice(RECV_KINDS))
            p.op(alg, r="p0", ss=["s0"] * n, ps=[rng.choice(["p1", "p2", "p3"]) for _ in range(n)])
            p.op(alg, r="p4", ss=["s1"] * n, ps=["p1"] * n)
    for alg in ["Point.MultiScalarMult", "Point.VarTimeMultiScalarMult"]:
        for n in sizes:
            p = g.new("C01 %s n=%d" % (alg, n))
            for j in range(4):
                load_point(p, "p%d" % (1 + j), any_point(rng), rng)
                load_scalar(p, "s%d" % j, scalar_val(rng) if j else rng.randrange(2**20), rng)
            prep_receiver(p, "p0", rng, rng.choice(RECV_KINDS))
            p.op(alg, r="p0", ss=[rng.choice(["s0", "s1", "s2", "s3"]) for _ in range(n)], ps=[rng.choice(["p1", "p2", "p3", "p4"]) for _ in range(n)])
            p.op("Point.Bytes", r="p0", o=["b0"])
    # calls in which every scalar is short (the algorithms may size their loops by the longest scalar)
    reps = 2 if tier == "quick" else 12
    for rep in range(reps):
        for cap in (64, 65, 128, 129, 192, 193, 250):
            p = g.new("C01 all scalars below 2^%d" % cap)
            load_point(p, "p1", any_point(rng), rng)
            load_point(p, "p2", any_point(rng), rng)
            # the longest scalar of the call is, in turn, all ones up to the width (its NAF / radix-16 recoding carries out of
            # the top word), a top-aligned 0xf8..01 pattern, exactly 2^(cap-1), and random; the others are anything shorter
            tops = [2**(cap - 1) - 1, (0x1f << (cap - 6)) | 1, 2**(cap - 1), rng.randrange(2**(cap - 2), 2**(cap - 1))]
            for j in range(3):
                v = tops[rep % 4] if j == 0 else rng.choice([2**(cap - 1) - 1, 2**(cap - 1), bitlen_scalar(rng, cap), bitlen_scalar(rng, cap)])
                p.scalar_canon("s%d" % j, v % L)
            r = rng.choice(["p0", "p3"])
            p.op("Point.VarTimeMultiScalarMult", r=r, ss=["s0", "s1"], ps=["p1", "p2"])
            p.op("Point.VarTimeMultiScalarMult", r=r, ss=["s0"], ps=["p1"])
            p.op("Point.MultiScalarMult", r=r, ss=["s0", "s1", "s2"], ps=["p1", "p2", "p1"])
            p.op("Point.VarTimeDoubleScalarBaseMult", r=r, a=["s0", "p1", "s1"])
            p.op("Point.ScalarMult", r=r, a=["s2", "p2"])
            p.op("Point.ScalarBaseMult", r=r, a=["s1"])
    long_alias_programs(g, tier, "C01")
    # eight terms through six registers (repeated pointers)
    for alg in ["Point.MultiScalarMult", "Point.VarTimeMultiScalarMult"]:
        p = g.new("C01 %s n=8" % alg)
        for j in range(4):
            load_point(p, "p%d" % (1 + j), any_point(rng), rng)
            load_scalar(p, "s%d" % j, scalar_val(rng), rng)
        prep_receiver(p, "p0", rng, "arith")
        p.op(alg, r="p0", ss=["s0", "s1", "s2", "s3", "s3", "s2", "s1", "s0"], ps=["p1", "p2", "p3", "p4", "p1", "p2", "p3", "p4"])


def suite_C02(g, tier):
    rng = g.rng
    # all 64 ordered pairs of the 8 small-order points
    for i in range(8):
        for j in range(8):
            p = g.new("C02 torsion pair %d %d" % (i, j))
            load_point(p, "p0", TORS_PTS[i], rng, "bytes")
            load_point(p, "p1", TORS_PTS[j], rng, rng.choice(["bytes", "ext-lam"]))
            p.op("Point.Add", r="p2", a=["p0", "p1"])
            p.op("Point.Subtract", r="p3", a=["p0", "p1"])
            p.op("Point.Bytes", r="p2", o=["b0"])
            if tier != "quick" or (i + j) % 3 == 0:
                p.op("Point.Add", r="p0", a=["p0", "p1"])
                p.op("Point.Subtract", r="p1", a=["p2", "p1"])
    n = 12 if tier == "quick" else 150
    binops = ["Point.Add", "Point.Subtract"]
    # aliasing patterns (receiver, a, b) over registers
    pats = [("p2", "p0", "p1"), ("p0", "p0", "p1"), ("p1", "p0", "p1"), ("p0", "p0", "p0"), ("p2", "p0", "p0")]
    for it in range(n):
        A = any_point(rng)
        c = rng.randrange(8)
        if c == 0:
            Bp = A
        elif c == 1:
            Bp = ((P - A[0]) % P, A[1])
        elif c == 2:
            Bp = (0, 1)
        elif c == 3:
            Bp = padd(A, rng.choice(TORS_PTS))
        elif c == 4:                                   # a small multiple of A, or its negation
            Bp = pmul(rng.choice([2, 3, 4, 5, 7, 8, 9, 16]), A)
            if rng.randrange(2):
                Bp = ((P - Bp[0]) % P, Bp[1])
        elif c == 5:                                   # sharing one coordinate with A
            Bp = (A[0], (P - A[1]) % P)
        else:
            Bp = any_point(rng)
        for op in binops:
            for (r, a, b) in pats if it % 3 == 0 else [rng.choice(pats)]:
                p = g.new("C02 %s %s<-%s,%s" % (op, r, a, b))
                load_point(p, "p0", A, rng)
                load_point(p, "p1", Bp, rng)
                if r == "p2":
                    prep_receiver(p, "p2", rng, rng.choice(RECV_KINDS))
                p.op(op, r=r, a=[a, b])
                p.op("Point.Bytes", r=r, o=["b0"])
                # operands produced by earlier operations
                p.op(op, r="p3", a=[r, "p1"])
                p.op("Point.Negate", r="p4", a=["p3"])
                p.op("Point.Add", r="p4", a=["p4", "p3"])
                p.op("Point.Bytes", r="p4", o=["b1"])
        if it == 0:
            stale_state_programs(g, tier, "C02")
            sibling_programs(g, tier, "C02")
        if it < (2 if tier == "quick" else 12):
            # Q = +-A + T for every small-order T: the pairs on which dedicated (incomplete) formulas break down
            p = g.new("C02 Q = +-A + T for all small-order T")
            load_point(p, "p0", A, rng)
            for sgn in (1, -1):
                for T in TORS_PTS:
                    base = A if sgn > 0 else ((P - A[0]) % P, A[1])
                    load_point(p, "p1", padd(base, T), rng, rng.choice(["bytes", "ext-lam"]))
                    p.op("Point.Add", r="p2", a=["p0", "p1"])
                    p.op("Point.Subtract", r="p3", a=["p0", "p1"])
                    p.op("Point.Subtract", r="p3", a=["p1", "p0"])
        for op in ["Point.Negate", "Point.MultByCofactor"]:
            for r in ["p0", "p2"]:
                p = g.new("C02 %s %s" % (op, r))
                load_point(p, "p0", A, rng)
                if r == "p2":
                    prep_receiver(p, "p2", rng, rng.choice(RECV_KINDS))
                p.op(op, r=r, a=["p0"])
                p.op("Point.Bytes", r=r, o=["b0"])
                p.op(op, r=r, a=[r])


def stale_state_programs(g, tier, tag):
    """use V as an operand in every role, overwrite V through every writer, use it again in every role; the same writer is
    also applied to a copy of V's old value into a never-used receiver W, and W is used in the same roles: equal values must
    behave equally whatever history the objects have (hidden cached state, purity)"""
    rng = g.rng
    writers = ["Point.Negate.self", "Point.Negate.other", "Point.Set", "Point.SetBytes", "Point.SetExtendedCoordinates", "Point.Add",
               "Point.Subtract", "Point.MultByCofactor", "Point.ScalarMult", "Point.ScalarBaseMult", "Point.MultiScalarMult",
               "Point.VarTimeMultiScalarMult", "Point.VarTimeDoubleScalarBaseMult", "Point.SetBytes.bad", "Point.SetExtendedCoordinates.bad"]
    reps = 1 if tier == "quick" else 4
    reading = ("Point.Negate.self", "Point.Add", "Point.Subtract", "Point.MultByCofactor", "Point.ScalarMult", "Point.MultiScalarMult",
               "Point.VarTimeMultiScalarMult", "Point.VarTimeDoubleScalarBaseMult")
    for _ in range(reps):
        for w, variant in [(w, 0) for w in writers] + [(w, 1) for w in reading]:
            p = g.new("%s %s / overwrite by %s / use again" % (tag, "use" if variant == 0 else "first use in place", w))
            load_point(p, "p0", any_point(rng), rng)          # V
            load_point(p, "p1", any_point(rng), rng)          # P
            load_point(p, "p2", any_point(rng), rng)          # other
            load_scalar(p, "s0", scalar_val(rng), rng)

            def uses(V="p0", O="p1"):
                p.op("Point.Add", r="p3", a=[O, V])           # V on the cached side
                p.op("Point.Subtract", r="p3", a=[O, V])
                p.op("Point.Add", r="p3", a=[V, O])
                p.op("Point.ScalarMult", r="p3", a=["s0", V])
                p.op("Point.VarTimeMultiScalarMult", r="p3", ss=["s0"], ps=[V])
                p.op("Point.VarTimeDoubleScalarBaseMult", r="p3", a=["s0", V, "s0"])
                p.op("Point.MultiScalarMult", r="p3", ss=["s0", "s0"], ps=[V, O])
                p.op("Point.Bytes", r=V, o=["b0"])
                p.op("Point.BytesMontgomery", r=V, o=["b1"])
                p.op("Point.Equal", r=V, a=[O])
                p.op("Point.Equal", r=O, a=[V])

            def write(r, v):
                """apply writer w with receiver r; v is the register that plays V's role among the arguments"""
                if w == "Point.Negate.self":
                    p.op("Point.Negate", r=r, a=[v])
                elif w == "Point.Negate.other":
                    p.op("Point.Negate", r=r, a=["p2"])
                elif w == "Point.Set":
                    p.op("Point.Set", r=r, a=["p2"])
                elif w == "Point.SetBytes":
                    p.op("Point.Bytes", r="p2", o=["b2"])
                    p.op("Point.SetBytes", r=r, a=["b2"])
                elif w == "Point.SetBytes.bad":
                    p.buf("b2", bytes(31))
                    p.op("Point.SetBytes", r=r, a=["b2"])
                elif w in ("Point.SetExtendedCoordinates", "Point.SetExtendedCoordinates.bad"):
                    p.op("Point.ExtendedCoordinates", r="p2", o=["e0", "e1", "e2", "e3"])
                    if w.endswith(".bad"):
                        p.op("Elem.One", r="e4")
                        p.op("Elem.Add", r="e3", a=["e3", "e4"])
                    p.op("Point.SetExtendedCoordinates", r=r, a=["e0", "e1", "e2", "e3"])
                elif w in ("Point.Add", "Point.Subtract"):
                    p.op(w, r=r, a=pat(v))
                elif w == "Point.MultByCofactor":
                    p.op(w, r=r, a=[v])
                elif w == "Point.ScalarMult":
                    p.op(w, r=r, a=["s0", v])
                elif w == "Point.ScalarBaseMult":
                    p.op(w, r=r, a=["s0"])
                elif w == "Point.VarTimeDoubleScalarBaseMult":
                    p.op(w, r=r, a=["s0", v, "s0"])
                else:
                    p.op(w, r=r, ss=["s0", "s0"], ps=[v, "p1"])

            k = rng.randrange(4)
            pat = lambda v: [[v, "p2"], ["p2", v], ["p2", "p1"], [v, v]][k]
            first_in_place = variant == 1                     # the in-place call is the first use of this object
            if not first_in_place:
                uses()
            p.op("Point.Set", r="p5", a=["p0"])               # a copy of V's value before the overwrite
            write("p0", "p0")                                 # in place: V is receiver (and argument where the writer reads it)
            twice = first_in_place and w in ("Point.Negate.self", "Point.MultByCofactor", "Point.ScalarMult")
            if twice:                                         # in place twice in a row
                write("p0", "p0")
            uses()
            if first_in_place:
                continue
            if not w.endswith(".bad") and not twice:
                write("p4", "p5")                             # the same operation on the copy, into a never-used receiver W
                uses("p4", "p1")
                # a freshly decoded copy of V's current value
                p.op("Point.Bytes", r="p4", o=["b3"])
                p.op("Point.SetBytes", r="p5", a=["b3"])
                uses("p5", "p1")
            # unrelated work of the same shape on another point, then the same calls once more
            uses("p1", "p2")
            uses()



def sibling_programs(g, tier, tag):
    """points built from another point's exported coordinates by negating coordinates: (sX X, sY Y, sZ Z, sT T) with
    sX sY = sZ sT is a valid representation of +-P (+ the order-2 point); the siblings share limbs with P"""
    rng = g.rng
    pats = [(1, 1, -1, -1), (-1, -1, 1, 1), (-1, 1, 1, -1), (1, -1, 1, -1), (-1, 1, -1, 1), (1, -1, -1, 1), (-1, -1, -1, -1)]
    n = 3 if tier == "quick" else 20
    for it in range(n):
        for pat in pats:
            p = g.new("%s sign-pattern sibling %s" % (tag, pat))
            load_point(p, "p0", any_point(rng), rng, rng.choice(["bytes", "ext-lam"]))
            if rng.randrange(2):
                p.op("Point.Add", r="p0", a=["p0", "p0"])          # a representation produced by arithmetic
            p.op("Point.ExtendedCoordinates", r="p0", o=["e0", "e1", "e2", "e3"])
            for c, sgn in zip(["e0", "e1", "e2", "e3"], pat):
                if sgn < 0:
                    p.op("Elem.Negate", r=c, a=[c])
            p.op("Point.SetExtendedCoordinates", r="p1", a=["e0", "e1", "e2", "e3"])
            p.op("Point.Add", r="p2", a=["p0", "p1"])
            p.op("Point.Subtract", r="p3", a=["p0", "p1"])
            p.op("Point.Add", r="p2", a=["p1", "p0"])
            p.op("Point.Subtract", r="p3", a=["p1", "p0"])
            p.op("Point.Equal", r="p0", a=["p1"])
            p.op("Point.Equal", r="p1", a=["p0"])
            p.op("Point.Bytes", r="p1", o=["b0"])


def cold_programs(g, tier, tag):
    """programs that run in a fresh process each: the FIRST call of the process is an operation that relies on lazily built
    or cached package state, with valid, degenerate or misused arguments"""
    rng = g.rng
    firsts = ["base", "double", "double-uninit", "double-zero-a", "msm", "vmsm", "vmsm-empty", "newgen", "newid", "setext-zero",
              "scalarmult", "montgomery", "equal-uninit", "add-uninit", "setbytes-bad"]
    if tier == "quick":
        firsts = ["double-uninit", "base", "double-zero-a", "setext-zero", "vmsm-empty"] + rng.sample(firsts, 3)
    for f in firsts:
        p = g.new("%s cold process, first call: %s" % (tag, f))
        p.cold = True
        # arguments are prepared with operations that do not touch the lazily built state (decoding, scalar decoding)
        p.point_from_bytes("p1", enc_point(*any_point(rng)))
        p.scalar_canon("s0", scalar_val(rng) or 1)
        p.scalar_canon("s1", 0)
        if f == "base":
            p.op("Point.ScalarBaseMult", r="p0", a=["s0"])
        elif f == "double":
            p.op("Point.VarTimeDoubleScalarBaseMult", r="p0", a=["s0", "p1", "s0"])
        elif f == "double-uninit":
            p.op("Point.VarTimeDoubleScalarBaseMult", r="p0", a=["s0", "p2", "s0"])
            p.op("Point.VarTimeDoubleScalarBaseMult", r="p0", a=["s1", "p2", "s0"])
        elif f == "double-zero-a":
            p.op("Point.VarTimeDoubleScalarBaseMult", r="p0", a=["s1", "p1", "s0"])
            p.op("Point.VarTimeDoubleScalarBaseMult", r="p3", a=["s1", "p2", "s1"])
        elif f == "msm":
            p.op("Point.MultiScalarMult", r="p0", ss=["s0", "s1"], ps=["p1", "p1"])
        elif f == "vmsm":
            p.op("Point.VarTimeMultiScalarMult", r="p0", ss=["s0", "s1"], ps=["p1", "p1"])
        elif f == "vmsm-empty":
            p.op("Point.VarTimeMultiScalarMult", r="p0", ss=[], ps=[])
            p.op("Point.MultiScalarMult", r="p3", ss=[], ps=[])
            p.op("Point.VarTimeMultiScalarMult", r="p4", ss=["s1"], ps=["p1"])
        elif f == "newgen":
            p.op("NewGeneratorPoint", o=["p0"])
        elif f == "newid":
            p.op("NewIdentityPoint", o=["p0"])
        elif f == "setext-zero":
            for r in ("e0", "e1", "e2", "e3"):
                p.op("Elem.Zero", r=r)
            p.op("Point.SetExtendedCoordinates", r="p0", a=["e0", "e1", "e2", "e3"])
            p.op("Point.ExtendedCoordinates", r="p1", o=["e4", "e5", "e6", "e7"])
            p.op("Point.SetExtendedCoordinates", r="p3", a=["e4", "e5", "e6", "e7"])
            p.op("Point.SetExtendedCoordinates", r="p3", a=["e0", "e1", "e2", "e3"])
        elif f == "scalarmult":
            p.op("Point.ScalarMult", r="p0", a=["s0", "p1"])
        elif f == "montgomery":
            p.op("Point.BytesMontgomery", r="p1", o=["b0"])
            p.op("Point.BytesMontgomery", r="p1", o=["b1"])
        elif f == "equal-uninit":
            p.op("Point.Equal", r="p1", a=["p2"])
        elif f == "add-uninit":
            p.op("Point.Add", r="p0", a=["p1", "p2"])
        else:
            p.buf("b0", bytes(31))
            p.op("Point.SetBytes", r="p0", a=["b0"])
        # then ordinary use
        p.op("Point.ScalarBaseMult", r="p4", a=["s0"])
        p.op("Point.VarTimeDoubleScalarBaseMult", r="p5", a=["s0", "p1", "s0"])
        p.op("Point.Bytes", r="p4", o=["b2"])
        p.op("Point.Bytes", r="p5", o=["b3"])


def history_programs_scalar(g, tier, tag):
    """the scalar counterpart of stale_state_programs: V is used in every role, overwritten in place by every writer (with
    V among the arguments where the writer reads it), used again; the same writer runs on a copy of V's old value into a
    never-used receiver W and W is used in the same roles.  A writer applied twice in a row (the first time in place) is
    part of `uses`: memoised or cached results keyed on an overwritten argument show here"""
    rng = g.rng
    writers = ["Invert", "Negate", "Set", "Add", "Subtract", "Multiply", "MultiplyAdd", "SetCanonicalBytes", "SetUniformBytes",
               "SetBytesWithClamping", "SetCanonicalBytes.bad"]
    for _ in range(1 if tier == "quick" else 6):
        for w, variant in [(w, 0) for w in writers] + [(w, 1) for w in ("Invert", "Negate", "Add", "Subtract", "Multiply", "MultiplyAdd")]:
            p = g.new("%s scalar %s / overwrite by %s / use again" % (tag, "use" if variant == 0 else "first use in place", w))
            load_scalar(p, "s0", scalar_val(rng), rng)
            load_scalar(p, "s1", scalar_val(rng), rng)

            def uses(V="s0", O="s1"):
                p.op("Scalar.Invert", r="s3", a=[V])
                p.op("Scalar.Negate", r="s3", a=[V])
                p.op("Scalar.Multiply", r="s3", a=[V, O])
                p.op("Scalar.Multiply", r="s3", a=[O, V])
                p.op("Scalar.Add", r="s3", a=[O, V])
                p.op("Scalar.Subtract", r="s3", a=[O, V])
                p.op("Scalar.MultiplyAdd", r="s3", a=[V, O, V])
                p.op("Scalar.Equal", r=V, a=[O])
                p.op("Scalar.Equal", r=O, a=[V])
                p.op("Scalar.Bytes", r=V, o=["b0"])
                p.op("Point.ScalarBaseMult", r="p3", a=[V])

            def write(r, v):
                if w in ("Invert", "Negate", "Set"):
                    p.op("Scalar." + w, r=r, a=[v])
                elif w in ("Add", "Subtract", "Multiply"):
                    p.op("Scalar." + w, r=r, a=[[v, "s1"], ["s1", v], [v, v]][k % 3])
                elif w == "MultiplyAdd":
                    p.op("Scalar.MultiplyAdd", r=r, a=[[v, "s1", "s1"], ["s1", v, "s1"], ["s1", "s1", v], [v, v, v]][k % 4])
                elif w == "SetCanonicalBytes":
                    p.op("Scalar.Bytes", r="s1", o=["b2"])
                    p.op("Scalar.SetCanonicalBytes", r=r, a=["b2"])
                elif w == "SetCanonicalBytes.bad":
                    p.buf("b2", le(L + 1))
                    p.op("Scalar.SetCanonicalBytes", r=r, a=["b2"])
                elif w == "SetUniformBytes":
                    p.buf("b2", wide)
                    p.op("Scalar.SetUniformBytes", r=r, a=["b2"])
                else:
                    p.buf("b2", wide[:32])
                    p.op("Scalar.SetBytesWithClamping", r=r, a=["b2"])

            k = rng.randrange(12)
            wide = bytes(rng.randrange(256) for _ in range(64))
            if variant == 0:                     # otherwise the in-place call is the first time the library sees this value
                uses()
            p.op("Scalar.Set", r="s5", a=["s0"])
            write("s0", "s0")
            twice = w in ("Invert", "Negate") and variant == 1
            if twice:                            # in place twice in a row
                write("s0", "s0")
            uses()
            if variant == 1:
                continue
            if w in ("Invert", "Negate"):        # the same writer again, on what it just produced (not in place, then in place)
                p.op("Scalar." + w, r="s3", a=["s0"])
                write("s0", "s0")
                uses()
            if not w.endswith(".bad") and not twice:
                write("s4", "s5")
                uses("s4", "s1")
            uses("s1", "s0")
            uses()


def history_programs_elem(g, tier, tag):
    """the same for field elements"""
    rng = g.rng
    writers = ["Invert", "Square", "Negate", "Absolute", "Pow22523", "Set", "Add", "Subtract", "Multiply", "Mult32", "SqrtRatio.u",
               "SqrtRatio.v", "Select", "Swap", "SetBytes", "SetWideBytes", "Zero", "One"]
    for _ in range(1 if tier == "quick" else 6):
        for w, variant in [(w, 0) for w in writers] + [(w, 1) for w in ("Invert", "Square", "Negate", "Absolute", "Pow22523", "Add", "Subtract",
                                                                        "Multiply", "Mult32", "SqrtRatio.u", "SqrtRatio.v")]:
            p = g.new("%s element %s / overwrite by %s / use again" % (tag, "use" if variant == 0 else "first use in place", w))
            load_elem(p, "e0", field_val(rng), rng)
            load_elem(p, "e1", field_val(rng), rng)

            def uses(V="e0", O="e1"):
                p.op("Elem.Invert", r="e3", a=[V])
                p.op("Elem.Square", r="e3", a=[V])
                p.op("Elem.Negate", r="e3", a=[V])
                p.op("Elem.Absolute", r="e3", a=[V])
                p.op("Elem.Multiply", r="e3", a=[V, O])
                p.op("Elem.Multiply", r="e3", a=[O, V])
                p.op("Elem.Subtract", r="e3", a=[O, V])
                p.op("Elem.Add", r="e3", a=[V, O])
                p.op("Elem.SqrtRatio", r="e3", a=[V, O])
                p.op("Elem.SqrtRatio", r="e3", a=[O, V])
                p.op("Elem.Pow22523", r="e3", a=[V])
                p.op("Elem.Mult32", r="e3", a=[V], n=121666)
                p.op("Elem.Equal", r=V, a=[O])
                p.op("Elem.Equal", r=O, a=[V])
                p.op("Elem.IsNegative", r=V)
                p.op("Elem.Bytes", r=V, o=["b0"])

            def write(r, v):
                if w in ("Invert", "Square", "Negate", "Absolute", "Pow22523", "Set"):
                    p.op("Elem." + w, r=r, a=[v])
                elif w in ("Add", "Subtract", "Multiply"):
                    p.op("Elem." + w, r=r, a=[[v, "e1"], ["e1", v], [v, v]][k % 3])
                elif w == "Mult32":
                    p.op("Elem.Mult32", r=r, a=[v], n=y32)
                elif w == "SqrtRatio.u":
                    p.op("Elem.SqrtRatio", r=r, a=[v, "e1"])
                elif w == "SqrtRatio.v":
                    p.op("Elem.SqrtRatio", r=r, a=["e1", v])
                elif w == "Select":
                    p.op("Elem.Select", r=r, a=[[v, "e1"], ["e1", v]][k % 2], n=k % 2)
                elif w == "Swap":
                    p.op("Elem.Set", r="e6", a=["e1"])
                    if r != v:
                        p.op("Elem.Set", r=r, a=[v])
                    p.op("Elem.Swap", r=r, a=["e6"], n=1)
                elif w == "SetBytes":
                    p.buf("b2", wide[:32])
                    p.op("Elem.SetBytes", r=r, a=["b2"])
                elif w == "SetWideBytes":
                    p.buf("b2", wide)
                    p.op("Elem.SetWideBytes", r=r, a=["b2"])
                else:
                    p.op("Elem." + w, r=r)

            k = rng.randrange(12)
            y32 = rng.choice([0, 1, 2, 19, 38, 2**31, 2**32 - 1, rng.randrange(2**32)])
            wide = bytes(rng.randrange(256) for _ in range(64))
            if variant == 0:
                uses()
            p.op("Elem.Set", r="e5", a=["e0"])
            write("e0", "e0")
            twice = w in ("Invert", "Negate") and variant == 1
            if twice:
                write("e0", "e0")
            uses()
            if variant == 1:
                continue
            if w in ("Invert", "Square", "Negate", "Absolute", "Pow22523"):
                p.op("Elem." + w, r="e3", a=["e0"])
                write("e0", "e0")
                uses()
            if not twice:
                write("e4", "e5")
                uses("e4", "e1")
            uses("e1", "e0")
            uses()


def both_signs_programs(g, tier, tag):
    rng = g.rng
    # both sign candidates of the same y decoded back to back (and the first one again), into the same and into other receivers
    m = 8 if tier == "quick" else 1000
    for it in range(m):
        p = g.new("%s both signs back to back" % tag)
        for k in range(3):
            pt = rng.choice([rand_point(rng), special_point(rng), rng.choice(TORS_PTS)])
            e = enc_point(*pt)
            if rng.randrange(4) == 0 and pt[1] < 19:
                e = le((P + pt[1]) | ((pt[0] & 1) << 255))
            e2 = e[:31] + bytes([e[31] ^ 0x80])
            other = enc_point(*rand_point(rng))
            seq = rng.choice([[e, e2, e], [e2, e, e2], [e, e, e2], [e2, e, other, e, e2], [e, e2, other, e2, e]])
            for j, enc in enumerate(seq):
                p.buf("b%d" % j, enc)
                p.op("Point.SetBytes", r=rng.choice(["p0", "p0", "p1"]), a=["b%d" % j])
            p.op("Point.Bytes", r="p0", o=["b6"])


def suite_C04(g, tier):
    rng = g.rng
    encs = []
    encs += [(e, "noncanon") for e in noncanon_encs()]
    encs += [(t, "torsion") for t in TORSION]
    for v in [0, 1, 2, P - 1, P - 2, P + 1, P + 2, 2**255 - 1, 2**255 - 20, (P - 1) // 2]:
        for sign in (0, 1):
            encs.append((le((v % 2**255) | (sign << 255)), "edge"))
    n = 40 if tier == "quick" else 20000
    for _ in range(n):
        c = rng.randrange(5)
        if c == 0:
            encs.append((bytes(rng.randrange(256) for _ in range(32)), "random"))
        elif c == 1:
            pt = special_point(rng)
            e = enc_point(*pt)
            if rng.randrange(4) == 0:  # flip the sign bit
                e = e[:31] + bytes([e[31] ^ 0x80])
            encs.append((e, "special"))
        elif c == 2:
            encs.append((enc_point(*any_point(rng)), "valid"))
        elif c == 3:
            encs.append((le(struct_val(rng) | (rng.randrange(2) << 255)), "struct"))
        else:
            encs.append((le(sparse_val(rng) | (rng.randrange(2) << 255)), "sparse"))
    # single-bit y (and its complement within the field size), both signs
    for b in (range(0, 256, 3) if tier == "quick" else range(256)):
        encs.append((le(1 << b), "bit"))
        encs.append((le(((1 << b) | (1 << 255)) % 2**256), "bit"))
        if tier != "quick":
            encs.append((le((2**255 - 1) ^ (1 << b)) if b < 255 else le(2**255 - 1), "bit"))
    # small |x| and small y, both signs
    lim = 20 if tier == "quick" else 400
    for x in range(lim):
        pt = point_with_x(x)
        if pt is not None:
            for xx in (pt[0], (P - pt[0]) % P):
                for yy in (pt[1], (P - pt[1]) % P):
                    encs.append((enc_point(xx, yy), "smallx"))
    for i in range(0, len(encs), 6):
        p = g.new("C04 decode")
        prep_receiver(p, "p1", rng, rng.choice(RECV_KINDS))
        for k, (e, cls) in enumerate(encs[i:i + 6]):
            r = rng.choice(["p0", "p1", "p2"])
            p.buf("b%d" % k, e, cap=rng.choice([None, 32, 40, 64]))
            p.op("Point.SetBytes", r=r, a=["b%d" % k])
            if rng.randrange(3) == 0:
                p.op("Point.Bytes", r=r, o=["b7"])    # panics if r is still the zero value: also fine (C15)
    # decode histories: the decision must not depend on what was decoded before (a memo / last-input cache in the decoder).
    # The same string twice in a row (same buffer, then an equal fresh one), again after other strings, its sign twin right
    # after it, and rejected / accepted strings alternating -- for rejected, non-canonical, small-order and ordinary strings
    def off_curve():
        while True:
            e = bytes(rng.randrange(256) for _ in range(32))
            if dec_point(e) is None:
                return e
    hist = [(off_curve(), "rejected") for _ in range(3 if tier == "quick" else 40)]
    hist += [(le(2 | (sg << 255)), "rejected y=2") for sg in (0, 1)] if dec_point(le(2)) is None else []
    hist += [(e, "noncanon") for e in noncanon_encs()[:(4 if tier == "quick" else 1000)]]
    hist += [(t, "torsion") for t in TORSION[:(3 if tier == "quick" else 100)]]
    hist += [(enc_point(*any_point(rng)), "valid") for _ in range(3 if tier == "quick" else 40)]
    for k, (e, cls) in enumerate(hist):
        other_bad, other_ok = off_curve(), enc_point(*rand_point(rng))
        twin = e[:31] + bytes([e[31] ^ 0x80])
        p = g.new("C04 decode histories (%s)" % cls)
        prep_receiver(p, "p1", rng, rng.choice(RECV_KINDS))
        p.buf("b0", e, cap=rng.choice([None, 32, 64]))
        p.buf("b1", bytes(e))
        p.buf("b2", other_bad)
        p.buf("b3", other_ok)
        p.buf("b4", twin)
        for bi, r in (("b0", "p0"), ("b0", "p0"), ("b1", "p1"), ("b4", "p2"), ("b0", "p2"), ("b3", "p0"), ("b0", "p1"), ("b2", "p1"), ("b1", "p0"), ("b2", "p2"), ("b2", "p0"), ("b4", "p1"), ("b4", "p0")):
            p.op("Point.SetBytes", r=r, a=[bi])
            if rng.randrange(3) == 0:
                p.op("Point.Bytes", r=r, o=["b7"])
    both_signs_programs(g, tier, "C04")
    # every length
    lens = list(range(0, 34)) + [63, 64, 65, 130]
    for i in range(0, len(lens), 6):
        p = g.new("C04 lengths")
        prep_receiver(p, "p0", rng, rng.choice(RECV_KINDS))
        for k, ln in enumerate(lens[i:i + 6]):
            base = enc_point(*rand_point(rng)) + bytes(rng.randrange(256) for _ in range(100))
            p.buf("b%d" % k, base[:ln], cap=rng.choice([None, ln + 5]))
            p.op("Point.SetBytes", r=rng.choice(["p0", "p1"]), a=["b%d" % k])
    p = g.new("C04 nil")
    p.buf("b0", b"", nil=True)
    p.op("Point.SetBytes", r="p0", a=["b0"])


def suite_C05(g, tier):
    rng = g.rng
    n = 10 if tier == "quick" else 1200
    for it in range(n):
        A = any_point(rng)
        Bp = any_point(rng)
        p = g.new("C05 histories")
        # the same abstract point reached through different histories / representations
        load_point(p, "p0", A, rng, "bytes")
        load_point(p, "p1", Bp, rng)
        p.op("Point.Bytes", r="p0", o=["b0"])
        p.op("Point.Add", r="p2", a=["p0", "p1"])
        p.op("Point.Subtract", r="p2", a=["p2", "p1"])          # A + B - B
        p.op("Point.Bytes", r="p2", o=["b1"])
        p.rescale("p2", rng.choice([2, P - 1, rng.randrange(1, P)]))
        p.op("Point.Bytes", r="p2", o=["b2"])
        p.op("Point.Add", r="p3", a=["p0", "p0"])                # 2A two ways
        p.scalar_canon("s0", 2)
        p.op("Point.ScalarMult", r="p4", a=["s0", "p0"])
        p.op("Point.Bytes", r="p3", o=["b3"])
        p.op("Point.Bytes", r="p4", o=["b4"])
        # decode what was encoded, re-encode (round trip)
        p.op("Point.SetBytes", r="p5", a=["b3"])
        p.op("Point.Bytes", r="p5", o=["b5"])
        p.op("Point.Equal", r="p5", a=["p3"])
    for it in range(n):
        # receivers with history: decode / import coordinates into a used receiver, then encode
        p = g.new("C05 used receivers")
        for kind in rng.sample(RECV_KINDS, 3):
            prep_receiver(p, "p0", rng, kind)
            load_point(p, "p0", any_point(rng), rng)
            p.op("Point.Bytes", r="p0", o=["b0"])
            p.op("Point.Negate", r="p0", a=["p0"])
            p.op("Point.Bytes", r="p0", o=["b1"])
    for e in noncanon_encs() if tier != "quick" else noncanon_encs()[::3]:
        p = g.new("C05 re-encode non-canonical")
        p.point_from_bytes("p0", e)
        p.op("Point.Bytes", r="p0", o=["b0"])
        p.op("Point.SetBytes", r="p1", a=["b0"])
        p.op("Point.Equal", r="p0", a=["p1"])
    for it in range(2 if tier == "quick" else 20):
        p = g.new("C05 unit-normalised representations")
        A = any_point(rng)
        for k, how in enumerate(["ext-unit-x", "ext-unit-y", "ext-unit-t", "ext-unit-x-", "ext-unit-y-", "ext-unit-t-"]):
            r = "p%d" % (k % 3)
            load_point(p, r, A, rng, how)
            p.op("Point.Bytes", r=r, o=["b0"])
            p.op("Point.SetBytes", r="p4", a=["b0"])
            p.op("Point.Equal", r="p4", a=[r])
    # every small-order point in every way of loading it (zero coordinates as zero limbs, as limbs of p, rescaled ...)
    for t in TORS_PTS:
        p = g.new("C05 small-order point, every representation")
        for k, how in enumerate(["bytes", "bytes-nc", "ext", "ext-lam", "ext-ncl"]):
            r = "p%d" % (k % 3)
            load_point(p, r, t, rng, how)
            p.op("Point.Bytes", r=r, o=["b0"])
            p.op("Point.SetBytes", r="p4", a=["b0"])
            p.op("Point.Bytes", r="p4", o=["b1"])
            p.op("Point.Equal", r="p4", a=[r])
            p.op("Point.Negate", r="p5", a=[r])
            p.op("Point.Bytes", r="p5", o=["b2"])
            p.op("Point.Add", r="p5", a=[r, "p4"])
            p.op("Point.Bytes", r="p5", o=["b3"])
    m = 30 if tier == "quick" else 8000
    for it in range(m):
        p = g.new("C05 special coordinates")
        pt = special_point(rng)
        load_point(p, "p0", pt, rng)
        p.op("Point.Bytes", r="p0", o=["b0"])
        p.op("Point.SetBytes", r="p1", a=["b0"])
        p.op("Point.Bytes", r="p1", o=["b1"])


def suite_C06(g, tier):
    rng = g.rng
    n = 25 if tier == "quick" else 4000
    for it in range(n):
        A = any_point(rng) if it % 2 else special_point(rng)
        x, y = A
        c = it % 8
        if c == 0:
            Bp = A
        elif c == 1:
            Bp = ((P - x) % P, y)
        elif c == 2:
            Bp = (x, (P - y) % P)
        elif c == 3:
            Bp = ((P - x) % P, (P - y) % P)
        elif c == 4:
            Bp = padd(A, rng.choice(TORS_PTS))
        elif c == 5:
            Bp = rng.choice(TORS_PTS)
            A = rng.choice(TORS_PTS)
        else:
            Bp = any_point(rng)
        p = g.new("C06 equal")
        load_point(p, "p0", A, rng)
        load_point(p, "p1", Bp, rng)
        p.op("Point.Equal", r="p0", a=["p1"])
        p.op("Point.Equal", r="p1", a=["p0"])
        p.op("Point.Equal", r="p0", a=["p0"])
        p.rescale("p1", rng.randrange(1, P))
        p.op("Point.Equal", r="p0", a=["p1"])
        p.op("Point.Add", r="p2", a=["p0", "p1"])
        p.op("Point.Subtract", r="p2", a=["p2", "p1"])
        p.op("Point.Equal", r="p2", a=["p0"])
        p.op("Point.Equal", r="p2", a=["p1"])
    # points with a sparse coordinate (k * 2^e exactly): differences that live in a single limb
    exps = [50, 51, 101, 102, 152, 153, 203, 204, 254]
    cands = [(e, k) for e in exps for k in range(1, 16)]
    rng.shuffle(cands)
    done = 0
    for e, k in cands:
        if done >= (24 if tier == "quick" else 135):
            break
        v = k * 2**e % P
        pts = []
        pt = point_with_x(v)
        if pt is not None:
            pts.append(pt)
        if y_on_curve(v):
            pts.append((recover_x(v, 0), v))
        for (x, y) in pts:
            done += 1
            p = g.new("C06 sparse coordinate %d*2^%d" % (k, e))
            load_point(p, "p0", (x, y), rng, "bytes")
            for j, q in enumerate([((P - x) % P, y), (x, (P - y) % P), ((P - x) % P, (P - y) % P), (x, y)]):
                load_point(p, "p1", q, rng, "bytes")
                p.op("Point.Equal", r="p0", a=["p1"])
                p.op("Point.Equal", r="p1", a=["p0"])
                if j % 2 == 0:
                    p.rescale("p1", rng.randrange(2, P))
                    p.op("Point.Equal", r="p0", a=["p1"])
    # representations in which one coordinate is a sparse value k * 2^e (every bit position e), compared with +-P and the
    # sign siblings at Z = 1 and in the same normalisation: the cross products X1 Z2 - X2 Z1, Y1 Z2 - Y2 Z1 that Equal
    # forms are then 0 or a sparse value (a difference confined to a few bits of one limb)
    for it in range(40 if tier == "quick" else 1500):
        A = any_point(rng) if it % 3 else special_point(rng)
        x, y = A
        coords = [c for c in (x, y, 1, x * y % P) if c % P]
        c = coords[it % len(coords)]
        sv = (rng.choice([1, 1, 3, 5, 255]) << rng.randrange(255)) % P
        lam = sv * inv(c) % P
        p = g.new("C06 sparse-normalised representation")
        for r, v in zip(("e4", "e5", "e6", "e7"), (x * lam % P, y * lam % P, lam, x * y % P * lam % P)):
            p.elem_from_int(r, v)
        p.op("Point.SetExtendedCoordinates", r="p0", a=["e4", "e5", "e6", "e7"])
        for j, q in enumerate([((P - x) % P, y), (x, (P - y) % P), ((P - x) % P, (P - y) % P), (x, y), padd(A, TORS_PTS[1 + it % 7])]):
            load_point(p, "p1", q, rng, "bytes")
            p.op("Point.Equal", r="p0", a=["p1"])
            p.op("Point.Equal", r="p1", a=["p0"])
            if j < 2:
                lam2 = (rng.choice([1, 3]) << rng.randrange(255)) % P * inv(c) % P
                for r, v in zip(("e4", "e5", "e6", "e7"), (q[0] * lam2 % P, q[1] * lam2 % P, lam2, q[0] * q[1] % P * lam2 % P)):
                    p.elem_from_int(r, v)
                p.op("Point.SetExtendedCoordinates", r="p2", a=["e4", "e5", "e6", "e7"])
                p.op("Point.Equal", r="p0", a=["p2"])
                p.op("Point.Equal", r="p2", a=["p0"])
    sibling_programs(g, tier, "C06")
    for i in range(8):
        p = g.new("C06 torsion row %d" % i)
        load_point(p, "p0", TORS_PTS[i], rng)
        for j in range(8):
            load_point(p, "p1", TORS_PTS[j], rng, rng.choice(["bytes", "ext-lam"]))
            p.op("Point.Equal", r="p0", a=["p1"])


SC_OPS2 = ["Scalar.Add", "Scalar.Subtract", "Scalar.Multiply"]


def suite_C07(g, tier):
    rng = g.rng
    history_programs_scalar(g, tier, "C07")
    n = 40 if tier == "quick" else 6000
    for it in range(n):
        p = g.new("C07 scalar arithmetic")
        a = scalar_val(rng)
        c = rng.randrange(6)
        if c == 0:
            b = a
        elif c == 1:
            b = (L - a) % L
        elif c == 2:  # close in the Montgomery domain: b = a + k * 2^-256
            b = (a + rng.choice([1, 2, rng.randrange(1, 2**64), 2**32, 2**64, rng.randrange(1, 2**124)]) * RINV) % L
        elif c == 3:
            w = rng.choice([2**32, 2**96, 2**160, 2**224, (2**32) * (1 + 2**64 + 2**128), rng.randrange(2**32) << 32])
            b = (a + (w % L) * RINV) % L
        else:
            b = scalar_val(rng)
        cc = scalar_val(rng)
        load_scalar(p, "s0", a, rng)
        load_scalar(p, "s1", b, rng)
        load_scalar(p, "s2", cc, rng)
        for op in SC_OPS2:
            r, x, y = rng.choice([("s3", "s0", "s1"), ("s3", "s1", "s0"), ("s0", "s0", "s1"), ("s1", "s0", "s1"), ("s3", "s0", "s0"), ("s0", "s0", "s0")])
            p.op(op, r=r, a=[x, y])
            if r != "s3":   # restore
                load_scalar(p, r, a if r == "s0" else b, rng, "canon")
        p.op("Scalar.Negate", r=rng.choice(["s3", "s0"]), a=["s0"])
        load_scalar(p, "s0", a, rng, "canon")
        r, x, y, z = rng.choice([("s3", "s0", "s1", "s2"), ("s2", "s0", "s1", "s2"), ("s0", "s0", "s1", "s2"), ("s1", "s0", "s1", "s2"),
                                 ("s0", "s0", "s0", "s0"), ("s3", "s0", "s0", "s1"), ("s2", "s2", "s2", "s0")])
        p.op("Scalar.MultiplyAdd", r=r, a=[x, y, z])
        p.op("Scalar.Equal", r="s0", a=["s1"])
        p.op("Scalar.Equal", r="s1", a=["s0"])
        p.op("Scalar.Equal", r="s1", a=["s1"])
        p.op("Scalar.Bytes", r="s3", o=["b0"])
        if it % 4 == 0:
            p.op("Scalar.Invert", r=rng.choice(["s3", "s1"]), a=["s1"])
        # result-directed product: x * y = R for a result R at an edge of the Montgomery range
        R = rng.choice([mont_edge_scalar(rng), mont_struct_scalar(rng)])
        xv = scalar_val(rng) or 1
        load_scalar(p, "s4", xv, rng, "canon")
        load_scalar(p, "s5", R * pow(xv, L - 2, L) % L, rng, "canon")
        p.op("Scalar.Multiply", r="s3", a=rng.choice([["s4", "s5"], ["s5", "s4"]]))
        p.op("Scalar.MultiplyAdd", r="s2", a=["s4", "s5", rng.choice(["s2", "s0"])])
        # result-directed sum / difference in the Montgomery domain: the integer sum of the two representatives is structured
        for _rep in range(8):
            S = 0
            for i in range(4):
                top = [2**60, 2**60 + 1, 2**60 + 2**32, 2**61 - 1] if i == 3 else []
                S |= rng.choice(PAL64 + top + [rng.randrange(2**64)]) << (64 * i)
            S %= 2 * L
            am = rng.randrange(0, min(S, L - 1) + 1)
            bm = S - am
            if bm >= L:
                continue
            load_scalar(p, "s4", am * RINV % L, rng, "canon")
            load_scalar(p, "s5", bm * RINV % L, rng, "canon")
            p.op("Scalar.Add", r="s3", a=rng.choice([["s4", "s5"], ["s5", "s4"]]))
            p.op("Scalar.Subtract", r="s2", a=["s3", "s5"])
            if _rep == 0:
                p.op("Scalar.Bytes", r="s3", o=["b1"])
                p.op("Scalar.MultiplyAdd", r="s2", a=["s0", "s1", "s3"])
        # the same value in whatever representation an operation left it and freshly decoded: Equal both ways
        for r in ("s3", "s2"):
            p.op("Scalar.Bytes", r=r, o=["b1"])
            p.op("Scalar.SetCanonicalBytes", r="s5", a=["b1"])
            p.op("Scalar.Equal", r=r, a=["s5"])
            p.op("Scalar.Equal", r="s5", a=[r])
    # tiny and extreme Montgomery representatives (value = w * 2^-256 mod l for w = 0, 1, 2, ..., l-1, l-2, 2^64, 2^128, 2^192)
    ws = [0, 1, 2, 3, 4, 7, 8, L - 1, L - 2, 2**64, 2**64 - 1, 2**128, 2**192, 2**252, 2**252 - 1]
    for i in range(0, len(ws), 3):
        p = g.new("C07 extreme Montgomery representatives")
        load_scalar(p, "s3", scalar_val(rng) or 7, rng, "canon")
        for w in ws[i:i + 3]:
            load_scalar(p, "s0", w * RINV % L, rng, "canon")
            p.op("Scalar.Invert", r="s1", a=["s0"])
            p.op("Scalar.Invert", r="s0", a=["s0"])
            load_scalar(p, "s0", w * RINV % L, rng, "canon")
            p.op("Scalar.Negate", r="s1", a=["s0"])
            p.op("Scalar.Multiply", r="s2", a=["s0", "s3"])
            p.op("Scalar.Multiply", r="s2", a=["s0", "s0"])
            p.op("Scalar.Add", r="s2", a=["s0", "s3"])
            p.op("Scalar.Subtract", r="s2", a=["s3", "s0"])
            p.op("Scalar.MultiplyAdd", r="s2", a=["s0", "s3", "s0"])
            p.op("Scalar.Equal", r="s0", a=["s1"])
            p.op("Scalar.Bytes", r="s0", o=["b0"])
            p.op("Point.ScalarBaseMult", r="p0", a=["s0"])
    # operations that produce zero, then comparisons and further arithmetic on the result
    for zsrc in ["neg0", "sub", "mul0", "inv0", "new", "madd"]:
        p = g.new("C07 zero produced by %s" % zsrc)
        load_scalar(p, "s0", scalar_val(rng) or 5, rng, "canon")
        p.scalar_canon("s1", 0)
        if zsrc == "neg0":
            p.op("Scalar.Negate", r="s2", a=["s1"])
        elif zsrc == "sub":
            p.op("Scalar.Subtract", r="s2", a=["s0", "s0"])
        elif zsrc == "mul0":
            p.op("Scalar.Multiply", r="s2", a=["s0", "s1"])
        elif zsrc == "inv0":
            p.op("Scalar.Invert", r="s2", a=["s1"])
        elif zsrc == "new":
            p.op("NewScalar", o=["s2"])
        else:
            p.op("Scalar.Negate", r="s3", a=["s0"])
            p.op("Scalar.MultiplyAdd", r="s2", a=["s0", "s0", "s3"])
            p.op("Scalar.Multiply", r="s3", a=["s0", "s0"])
            p.op("Scalar.Subtract", r="s2", a=["s3", "s3"])
        for a, b in [("s2", "s1"), ("s1", "s2"), ("s2", "s2")]:
            p.op("Scalar.Equal", r=a, a=[b])
        p.op("Scalar.Negate", r="s3", a=["s2"])
        p.op("Scalar.Equal", r="s3", a=["s1"])
        p.op("Scalar.Equal", r="s1", a=["s3"])
        p.op("Scalar.Add", r="s4", a=["s3", "s3"])
        p.op("Scalar.Equal", r="s4", a=["s1"])
        p.op("Scalar.Subtract", r="s4", a=["s3", "s1"])
        p.op("Scalar.Equal", r="s1", a=["s4"])
        p.op("Scalar.Bytes", r="s3", o=["b0"])
        p.op("Point.ScalarBaseMult", r="p0", a=["s3"])
        p.op("Point.Bytes", r="p0", o=["b1"])
    # Equal must see every bit of the difference, in the plain and in the Montgomery domain
    bits_ = list(range(253))
    for i in range(0, len(bits_), 16):
        p = g.new("C07 Equal single-bit differences")
        a = scalar_val(rng)
        for b in bits_[i:i + 16]:
            load_scalar(p, "s0", a, rng, "canon")
            load_scalar(p, "s1", (a + (1 << b)) % L, rng, "canon")
            p.op("Scalar.Equal", r="s0", a=["s1"])
            load_scalar(p, "s1", (a + (1 << b) * RINV) % L, rng, "canon")     # one bit in the Montgomery representation
            p.op("Scalar.Equal", r="s0", a=["s1"])
            p.op("Scalar.Equal", r="s1", a=["s0"])
    p = g.new("C07 zero value")
    p.op("NewScalar", o=["s0"])
    p.op("Scalar.Bytes", r="s0", o=["b0"])
    p.op("Scalar.Bytes", r="s1", o=["b1"])
    p.op("Scalar.Invert", r="s2", a=["s1"])
    p.op("Scalar.Equal", r="s0", a=["s1"])
    p.op("Scalar.Negate", r="s3", a=["s1"])
    p.op("Scalar.Bytes", r="s3", o=["b2"])


def suite_C08(g, tier):
    rng = g.rng
    strs = []
    lm1 = L - 1
    strs += [le(lm1), le(L), le(L + 1), le(0), le(1), le(2**252), le(2**252 - 1), le(2**253 - 1), le(2**255), le(2**256 - 1)]
    for i in range(32):
        for dlt in (1, -1):
            for base in (lm1, L):
                b = bytearray(le(base))
                v = b[i] + dlt
                if 0 <= v <= 255:
                    b[i] = v
                    strs.append(bytes(b))
    # neighbours of l - 1 and l by WORD and by BYTE: the string agrees with the bound above position j, differs there by
    # +-1, by the top bit of the unit (a comparison done with the wrong signedness), or is 0 / all ones, and everything below
    # is zeros, ones or unchanged: comparisons done limb-wise, byte-wise or with borrow chains are then exercised at every unit
    for base in (lm1, L):
        for unit, count in ((64, 4), (8, 32)):
            mask = 2**unit - 1
            for j in range(count):
                u = (base >> (unit * j)) & mask
                for repl in {(u + 1) & mask, (u - 1) & mask, u ^ (1 << (unit - 1)), 0, mask} - {u}:
                    for low in ("same", "zeros", "ones"):
                        v = (base >> (unit * (j + 1))) << (unit * (j + 1)) | repl << (unit * j)
                        lowbits = unit * j
                        v |= {"same": base & (2**lowbits - 1), "zeros": 0, "ones": 2**lowbits - 1}[low]
                        if unit == 8 and low != "same" and tier == "quick":
                            continue
                        strs.append(le(v % 2**256))
    if tier != "quick":
        for i in range(32):
            for base in (lm1, L):
                b = bytearray(le(base))
                b[i] = rng.randrange(256)
                strs.append(bytes(b))
                b = bytearray(le(base))
                for j in range(i):
                    b[j] = rng.randrange(256)
                strs.append(bytes(b))
        strs += [bytes(rng.randrange(256) for _ in range(32)) for _ in range(6000)]
        strs += [le(scalar_val(rng)) for _ in range(6000)]
        strs += [le((L + rng.randrange(-2**20, 2**20)) % 2**256) for _ in range(3000)]
    else:
        strs += [le(scalar_val(rng)) for _ in range(20)]
    for i in range(0, len(strs), 6):
        p = g.new("C08 canonical")
        load_scalar(p, "s1", scalar_val(rng), rng)
        for k, s in enumerate(strs[i:i + 6]):
            r = rng.choice(["s0", "s1"])
            p.buf("b%d" % k, s, cap=rng.choice([None, 64]))
            p.op("Scalar.SetCanonicalBytes", r=r, a=["b%d" % k])
            p.op("Scalar.Bytes", r=r, o=["b7"])
    # wide reduction
    wides = [bytes([255] * 64), bytes(64), le(L, 64), le(L - 1, 64), le(L << 256, 64), le((L << 259) - 1, 64)]
    for seg in [(0, 21), (21, 42), (42, 64), (0, 32), (32, 64), (20, 22), (41, 43)]:
        b = bytearray(64)
        for j in range(*seg):
            b[j] = 255
        wides.append(bytes(b))
        b = bytearray(64)
        for j in range(*seg):
            b[j] = rng.randrange(256)
        wides.append(bytes(b))
    for j in range(64):
        b = bytearray(64)
        b[j] = 1 << rng.randrange(8)
        wides.append(bytes(b))
    nw = 20 if tier == "quick" else 12000
    wides += [bytes(rng.randrange(256) for _ in range(64)) for _ in range(nw)]
    wides += [le(scalar_val(rng) + rng.randrange(2**259) * L, 64) for _ in range(nw // 2)]
    for i in range(0, len(wides), 6):
        p = g.new("C08 wide")
        load_scalar(p, "s1", scalar_val(rng), rng, "canon")
        for k, s in enumerate(wides[i:i + 6]):
            r = rng.choice(["s0", "s1"])
            p.buf("b%d" % k, s, cap=rng.choice([None, 64, 80]))
            p.op("Scalar.SetUniformBytes", r=r, a=["b%d" % k])
            p.op("Scalar.Bytes", r=r, o=["b7"])
    # clamping: every combination of the five affected bits, with spare capacity and a live tail
    clamps = []
    for lowbits in range(8):
        for hi in range(4):
            b = bytearray(rng.randrange(256) for _ in range(32))
            b[0] = (b[0] & 0xf8) | lowbits
            b[31] = (b[31] & 0x3f) | (hi << 6)
            clamps.append(bytes(b))
    clamps += [bytes(32), bytes([255] * 32)]
    nc = 6 if tier == "quick" else 6000
    clamps += [bytes(rng.randrange(256) for _ in range(32)) for _ in range(nc)]
    for i in range(0, len(clamps), 6):
        p = g.new("C08 clamping")
        load_scalar(p, "s1", scalar_val(rng), rng, "canon")
        for k, s in enumerate(clamps[i:i + 6]):
            r = rng.choice(["s0", "s1"])
            cap = rng.choice([None, 32, 48, 64, 96])
            tail = bytes(rng.randrange(1, 256) for _ in range(64)) if cap else None
            p.buf("b%d" % k, s, cap=cap, tail=tail)
            p.op("Scalar.SetBytesWithClamping", r=r, a=["b%d" % k])
            p.op("Scalar.Bytes", r=r, o=["b7"])
    # basis vectors (single-bit inputs) for the three decoders
    for base in range(0, 512, 64):
        p = g.new("C08 single-bit wide inputs %d.." % base)
        for b in range(base, base + 64):
            p.buf("b0", le(1 << b, 64))
            p.op("Scalar.SetUniformBytes", r="s0", a=["b0"])
            p.op("Scalar.Bytes", r="s0", o=["b1"])
    for base in range(0, 256, 64):
        p = g.new("C08 single-bit canonical / clamped inputs %d.." % base)
        for b in range(base, base + 64):
            p.buf("b0", le(1 << b))
            p.op("Scalar.SetCanonicalBytes", r="s0", a=["b0"])
            p.op("Scalar.SetBytesWithClamping", r="s1", a=["b0"])
            p.op("Scalar.Bytes", r="s1", o=["b1"])
    # every other length, for the three setters
    lens = list(range(0, 34)) + [63, 64, 65, 66, 96, 128, 130]
    for op in ["Scalar.SetCanonicalBytes", "Scalar.SetUniformBytes", "Scalar.SetBytesWithClamping"]:
        for i in range(0, len(lens), 6):
            p = g.new("C08 lengths %s" % op)
            load_scalar(p, "s0", scalar_val(rng), rng, "canon")
            for k, ln in enumerate(lens[i:i + 6]):
                data = (le(rng.randrange(2**250)) * 5)[:ln]
                p.buf("b%d" % k, data, cap=rng.choice([None, ln + 7, 2 * ln + 64]),
                      tail=bytes(rng.randrange(1, 256) for _ in range(80)))
                p.op(op, r="s0", a=["b%d" % k])
                p.op("Scalar.Bytes", r="s0", o=["b7"])
    p = g.new("C08 nil")
    p.buf("b0", b"", nil=True)
    for op in ["Scalar.SetCanonicalBytes", "Scalar.SetUniformBytes", "Scalar.SetBytesWithClamping"]:
        p.op(op, r="s0", a=["b0"])


B0MAX = 2**51 + 2**36
BIMAX = 2**51 + 2**32


def within_bound(l):
    return l[0] <= B0MAX and all(x <= BIMAX for x in l[1:])


def limb_form(rng, v):
    """a limb vector for the value v (mod p) inside the representation invariant (every limb below the
    closed bound B* of DESIGN.md section 5: l0 <= 2^51 + 2^36, l1..l4 <= 2^51 + 2^32)"""
    v %= P
    c = rng.randrange(6)
    if c < 2:
        return limbs_of(v)
    if c < 4:
        l = limbs_plus_p(v, 1)          # v + p, limb by limb: inside the bound only when the limbs of v are small
        if within_bound(l):
            return l
    l = limbs_of(v)
    # push limbs to the bound: add 2^51 to limb i and subtract 1 from limb i+1 when possible
    for i in range(4):
        if l[i + 1] >= 1 and l[i] < 2**32 and rng.randrange(2):
            l[i] += 2**51
            l[i + 1] -= 1
    return l


def corner_limbs(rng):
    """limb vectors at the corners of the invariant (any value)"""
    c = rng.randrange(6)
    if c == 0:
        return [B0MAX] + [BIMAX] * 4
    if c == 1:
        return [rng.choice([0, 2**51 - 1, 2**51, B0MAX if i == 0 else BIMAX]) for i in range(5)]
    if c == 2:
        return [2**51 - 1] * 5
    if c == 3:
        return [2**51 + rng.randrange(2**32) for _ in range(5)]
    if c == 4:
        return [2**51 + rng.randrange(2**32) if rng.randrange(2) else rng.randrange(2**51) for _ in range(5)]
    return [rng.choice(PAL51 + [2**51, 2**51 + 1, BIMAX]) for _ in range(5)]


def load_elem(p, reg, v, rng, how=None):
    how = how or rng.choice(["bytes", "inject", "inject", "wide"])
    if how == "bytes":
        hi = rng.randrange(2) << 255
        if v < 19 and rng.randrange(2):
            return p.elem_from_int(reg, (P + v) | hi)
        return p.elem_from_int(reg, (v % P) | hi)
    if how == "wide":
        m = rng.randrange(0, 2**256)
        p.buf("b7", le((v % P) + m * P, 64))
        return p.op("Elem.SetWideBytes", r=reg, a=["b7"])
    return p.inject(reg, limb_form(rng, v))


FE_UN = ["Elem.Negate", "Elem.Square", "Elem.Invert", "Elem.Pow22523", "Elem.Absolute"]
FE_BIN = ["Elem.Add", "Elem.Subtract", "Elem.Multiply"]


def directed_pair(rng, op):
    """operands chosen so that the RESULT is a structured value (carry / reduction boundaries in the output)"""
    R = rng.choice([struct_val(rng) % P, sparse_val(rng), chain_val(rng), chain_val(rng), rng.randrange(64), P - 1 - rng.randrange(64)])
    a = field_val(rng)
    if op == "Elem.Add":
        return a, (R - a) % P
    if op == "Elem.Subtract":
        return a, (a - R) % P
    if a == 0:
        a = 1
    return a, R * inv(a) % P


def wide_edge_inputs(rng):
    """64-byte strings whose halves maximise the folded sums lo + 19 loMSB + 38 hi + 722 hiMSB limb by limb"""
    out = []
    for lo_ in (2**255 - 1, 2**256 - 1, struct_val(rng), (2**51 - 1) | ((2**51 - 1) << 204)):
        for hi_ in (2**256 - 1, ((2**51 - 1) // 38) | ((2**51 - 1) << 204) | (1 << 255), ((2**51 - 1) // 19) | (1 << 255), struct_val(rng) | (1 << 255)):
            out.append(le(lo_ % 2**256) + le(hi_ % 2**256))
    return out


def suite_C09(g, tier):
    rng = g.rng
    history_programs_elem(g, tier, "C09")
    # decoded wide inputs at the edge of the representation invariant, then used as subtrahend / under Negate / Absolute
    ws = wide_edge_inputs(rng)
    for i in range(0, len(ws), 4):
        p = g.new("C09 wide inputs used in every role")
        load_elem(p, "e3", field_val(rng), rng)
        for k, w in enumerate(ws[i:i + 4]):
            p.buf("b%d" % k, w)
            p.op("Elem.SetWideBytes", r="e0", a=["b%d" % k])
            p.op("Elem.Negate", r="e1", a=["e0"])
            p.op("Elem.Subtract", r="e2", a=["e3", "e0"])
            p.op("Elem.Absolute", r="e4", a=["e0"])
            p.op("Elem.Square", r="e5", a=["e0"])
            p.op("Elem.Multiply", r="e5", a=["e0", "e3"])
            p.op("Elem.Mult32", r="e6", a=["e0"], n=2**32 - 1)
            p.op("Elem.Negate", r="e6", a=["e6"])
    n = 50 if tier == "quick" else 2500
    for it in range(n):
        p = g.new("C09 field arithmetic")
        for k in range(3):
            op = rng.choice(FE_BIN)
            if rng.randrange(2):
                a, b = directed_pair(rng, op)
            else:
                a, b = field_val(rng), field_val(rng)
            if rng.randrange(4) == 0:
                p.inject("e0", corner_limbs(rng))
            else:
                load_elem(p, "e0", a, rng)
            if rng.randrange(4) == 0:
                p.inject("e1", corner_limbs(rng))
            else:
                load_elem(p, "e1", b, rng)
            r, x, y = rng.choice([("e2", "e0", "e1"), ("e0", "e0", "e1"), ("e1", "e0", "e1"), ("e2", "e0", "e0"), ("e0", "e0", "e0"), ("e2", "e1", "e0")])
            p.op(op, r=r, a=[x, y])
            # feed the result back (chains keep unreduced representations alive)
            p.op(rng.choice(FE_BIN), r="e3", a=[r, rng.choice(["e0", "e1", r])])
            p.op(rng.choice(["Elem.Square", "Elem.Negate", "Elem.Absolute"]), r=rng.choice(["e3", "e4"]), a=["e3"])
        # Mult32, result-directed: x = R / y
        y32 = rng.choice([0, 1, 2, 19, 38, 121665, 121666, 2**31, 2**32 - 1, 2**32 - 19, rng.randrange(2**32)])
        if y32 % P != 0 and rng.randrange(2):
            R = rng.choice([struct_val(rng) % P, sparse_val(rng), rng.randrange(2**36) + (rng.randrange(2**20) << 102)])
            xv = R * inv(y32) % P
        else:
            xv = field_val(rng)
        if rng.randrange(5) == 0:
            p.inject("e5", corner_limbs(rng))
        else:
            load_elem(p, "e5", xv, rng)
        p.op("Elem.Mult32", r=rng.choice(["e6", "e5"]), a=["e5"], n=y32)
        if it % 5 == 0:
            op = rng.choice(FE_UN)
            load_elem(p, "e0", field_val(rng), rng)
            p.op(op, r=rng.choice(["e0", "e7"]), a=["e0"])
    # Mult32: result-directed (x = R / y for a structured result R), many multipliers
    nm = 60 if tier == "quick" else 1500
    for it in range(nm):
        p = g.new("C09 Mult32 directed")
        for k in range(8):
            y32 = rng.choice([1, 2, 3, 19, 38, 121665, 121666, 2**31, 2**32 - 1, 2**32 - 19, rng.randrange(1, 2**32), rng.randrange(1, 2**32)])
            R = rng.choice([chain_val(rng), chain_val(rng), struct_val(rng) % P, sparse_val(rng)])
            xv = R * inv(y32) % P
            load_elem(p, "e%d" % (k % 4), xv, rng, rng.choice(["bytes", "inject", "wide"]))
            rr = rng.choice(["e4", "e%d" % (k % 4)])
            p.op("Elem.Mult32", r=rr, a=["e%d" % (k % 4)], n=y32)
            if k % 2 == 0:      # the (uncarried) product as subtrahend / under Negate, Absolute, again under Mult32
                p.op("Elem.Negate", r="e5", a=[rr])
                p.op("Elem.Subtract", r="e6", a=["e5", rr])
                p.op("Elem.Absolute", r="e7", a=[rr])
                p.op("Elem.Mult32", r="e7", a=[rr], n=rng.choice([2**32 - 1, 38, y32]))
                p.op("Elem.Negate", r="e7", a=["e7"])
    # Multiply / Square / Add / Subtract: result-directed
    for it in range(nm):
        p = g.new("C09 directed arithmetic")
        for k in range(6):
            op = rng.choice(FE_BIN + ["Elem.Square"])
            if op == "Elem.Square":
                R = rng.choice([chain_val(rng), struct_val(rng) % P, sparse_val(rng)])
                rt = sqrt(R)
                if rt is None:
                    rt = sqrt(R * SQRTM1 % P) or 1
                load_elem(p, "e0", rt, rng)
                p.op(op, r=rng.choice(["e2", "e0"]), a=["e0"])
            else:
                a, b = directed_pair(rng, op)
                load_elem(p, "e0", a, rng)
                load_elem(p, "e1", b, rng)
                p.op(op, r=rng.choice(["e2", "e0", "e1"]), a=["e0", "e1"])
    # special unary cases
    for v in [0, 1, P - 1, 2, SQRTM1, 19]:
        p = g.new("C09 unary special %d" % (v % 1000))
        for form in ("bytes", "inject"):
            load_elem(p, "e0", v, rng, form)
            for op in FE_UN:
                p.op(op, r="e1", a=["e0"])
    # non-canonical encodings p .. 2^255-1 into every unary operation
    for v in range(19) if tier != "quick" else [0, 1, 18]:
        p = g.new("C09 non-canonical input p+%d" % v)
        p.elem_from_int("e0", P + v)
        for op in FE_UN:
            p.op(op, r="e1", a=["e0"])
        p.op("Elem.Add", r="e2", a=["e0", "e0"])
        p.op("Elem.Absolute", r="e3", a=["e2"])
        p.op("Elem.Zero", r="e4")
        p.op("Elem.One", r="e5")
        p.op("Elem.Subtract", r="e6", a=["e0", "e0"])
        p.op("Elem.Absolute", r="e6", a=["e6"])


def suite_C10(g, tier):
    rng = g.rng
    # exhaustive small neighbourhoods at REAL: 0..40 and p-40..p+18, in several limb forms, both values of bit 255
    vals = list(range(0, 41)) + [P - k for k in range(1, 41)]
    if tier == "quick":
        vals = vals[::4] + [0, 1, 18, 19, P - 1, P - 19, P - 20]
    for i in range(0, len(vals), 3):
        p = g.new("C10 neighbourhoods")
        for v in vals[i:i + 3]:
            for form in ("bytes", "inject", "inject"):
                load_elem(p, "e0", v, rng, form)
                p.op("Elem.Bytes", r="e0", o=["b0"])
                p.op("Elem.IsNegative", r="e0")
                load_elem(p, "e1", v, rng, "inject")
                p.op("Elem.Equal", r="e0", a=["e1"])
                load_elem(p, "e1", (v + rng.choice([1, P - 1, 2**204, 2**255 - 19 - 2**204])) % P, rng)
                p.op("Elem.Equal", r="e0", a=["e1"])
    # Equal must see every bit: pairs differing in exactly one bit position, and in the high bits of every limb only
    bits_ = list(range(255))
    for i in range(0, len(bits_), 16):
        p = g.new("C10 Equal single-bit differences")
        v = field_val(rng) if rng.randrange(2) else rng.choice([0, 1, 5, P - 1])
        for b in bits_[i:i + 16]:
            load_elem(p, "e0", v, rng, "bytes")
            load_elem(p, "e1", (v ^ (1 << b)) % P if (v ^ (1 << b)) < P else (v + (1 << b)) % P, rng, rng.choice(["bytes", "inject"]))
            p.op("Elem.Equal", r="e0", a=["e1"])
            p.op("Elem.Equal", r="e1", a=["e0"])
    for it in range(6 if tier == "quick" else 60):
        p = g.new("C10 Equal high-bits-of-limbs differences")
        v = field_val(rng)
        for k in range(8):
            dlt = 0
            for i in range(5):
                if rng.randrange(2):
                    lo = rng.choice([32, 33, 40, 48, 50])
                    dlt |= (rng.randrange(1, 2**(51 - lo)) << lo) << (51 * i)
            w = (v + dlt) % P
            load_elem(p, "e0", v, rng, "bytes")
            load_elem(p, "e1", w, rng, "bytes")
            p.op("Elem.Equal", r="e0", a=["e1"])
    # the 19 non-canonical encodings and bit 255
    for v in range(19) if tier != "quick" else [0, 1, 9, 18]:
        p = g.new("C10 SetBytes non-canonical p+%d" % v)
        for hi in (0, 1):
            p.buf("b0", le((P + v) | (hi << 255)))
            p.op("Elem.SetBytes", r="e0", a=["b0"])
            p.op("Elem.Bytes", r="e0", o=["b1"])
            p.op("Elem.IsNegative", r="e0")
            p.elem_from_int("e1", v)
            p.op("Elem.Equal", r="e0", a=["e1"])
    n = 40 if tier == "quick" else 2500
    for it in range(n):
        p = g.new("C10 predicates on representations")
        v = field_val(rng)
        if rng.randrange(3) == 0:
            p.inject("e0", corner_limbs(rng))
        else:
            load_elem(p, "e0", v, rng)
        # representations produced by arithmetic (Add / Mult32 outputs keep bit 51 of the top limb)
        a = rng.randrange(P)
        if rng.randrange(2):
            a = (2**255 - 2**203 + rng.randrange(-40, 40)) % P
            bb = (2**203 + rng.randrange(0, 60)) % P
        else:
            bb = (struct_val(rng) - a) % P
        load_elem(p, "e2", a, rng, "bytes")
        load_elem(p, "e3", bb, rng, "bytes")
        p.op("Elem.Add", r="e4", a=["e2", "e3"])
        p.op("Elem.Mult32", r="e5", a=["e0"], n=rng.choice([1, 2, 2**32 - 1, rng.randrange(2**32)]))
        for r in ("e0", "e4", "e5"):
            p.op("Elem.IsNegative", r=r)
            p.op("Elem.Bytes", r=r, o=["b0"])
            p.op("Elem.Set", r="e6", a=[r])
            p.op("Elem.Negate", r="e6", a=["e6"])
            p.op("Elem.Negate", r="e6", a=["e6"])          # same value, different representation
            p.op("Elem.Equal", r=r, a=["e6"])
            p.op("Elem.IsNegative", r="e6")
        p.op("Elem.Equal", r="e0", a=["e4"])
        # select / swap, every aliasing pattern, both cond values
        cond = rng.randrange(2)
        r, x, y = rng.choice([("e7", "e0", "e4"), ("e0", "e0", "e4"), ("e4", "e0", "e4"), ("e7", "e0", "e0"), ("e0", "e0", "e0")])
        p.op("Elem.Select", r=r, a=[x, y], n=cond)
        r, u = rng.choice([("e4", "e5"), ("e5", "e5"), ("e5", "e4")])
        p.op("Elem.Swap", r=r, a=[u], n=rng.randrange(2))
        p.op("Elem.Swap", r="e2", a=["e2"], n=1)
        p.op("Elem.Swap", r="e2", a=["e3"], n=cond)
    # wide bytes
    wides = [bytes(64), bytes([255] * 64), le(P, 64), le(P << 256, 64), le(2**255, 64), le(2**511, 64), le(2**255 + 2**511, 64)]
    nw = 12 if tier == "quick" else 600
    for _ in range(nw):
        b = bytearray(rng.randrange(256) for _ in range(64))
        if rng.randrange(2):
            b[31] |= 0x80
        if rng.randrange(2):
            b[63] |= 0x80
        if rng.randrange(4) == 0:
            b[0:32] = le(struct_val(rng))
        if rng.randrange(4) == 0:
            b[32:64] = le(struct_val(rng))
        wides.append(bytes(b))
    wides += wide_edge_inputs(rng)
    for i in range(0, len(wides), 6):
        p = g.new("C10 wide")
        load_elem(p, "e3", field_val(rng), rng)
        for k, s in enumerate(wides[i:i + 6]):
            p.buf("b%d" % k, s)
            p.op("Elem.SetWideBytes", r="e0", a=["b%d" % k])
            p.op("Elem.Bytes", r="e0", o=["b7"])
            # the decoded representation used in every role (it may sit at the edge of the representation invariant)
            p.op("Elem.Negate", r="e1", a=["e0"])
            p.op("Elem.Subtract", r="e2", a=["e3", "e0"])
            p.op("Elem.Absolute", r="e4", a=["e0"])
            p.op("Elem.Square", r="e5", a=["e0"])
            p.op("Elem.Add", r="e6", a=["e0", "e0"])
            p.op("Elem.Subtract", r="e6", a=["e6", "e0"])
            p.op("Elem.IsNegative", r="e0")
    lens = list(range(0, 34)) + [63, 64, 65, 128]
    for op in ["Elem.SetBytes", "Elem.SetWideBytes"]:
        for i in range(0, len(lens), 6):
            p = g.new("C10 lengths %s" % op)
            load_elem(p, "e0", field_val(rng), rng)
            for k, ln in enumerate(lens[i:i + 6]):
                p.buf("b%d" % k, bytes(rng.randrange(256) for _ in range(ln)), cap=rng.choice([None, ln + 9]))
                p.op(op, r="e0", a=["b%d" % k])
    # basis vectors: the decoders select bits, so they are determined by what they do with every single-bit input
    for base in range(0, 256, 32):
        p = g.new("C10 SetBytes single-bit inputs %d.." % base)
        for b in range(base, base + 32):
            p.buf("b0", le(1 << b))
            p.op("Elem.SetBytes", r="e0", a=["b0"])
            p.op("Elem.Bytes", r="e0", o=["b1"])
    for base in range(0, 512, 32):
        p = g.new("C10 SetWideBytes single-bit inputs %d.." % base)
        for b in range(base, base + 32):
            p.buf("b0", le(1 << b, 64))
            p.op("Elem.SetWideBytes", r="e0", a=["b0"])
            p.op("Elem.Bytes", r="e0", o=["b1"])
        # and the complement (all ones except one bit) for a few positions
        for b in rng.sample(range(base, base + 32), 4):
            p.buf("b0", le((2**512 - 1) ^ (1 << b), 64))
            p.op("Elem.SetWideBytes", r="e0", a=["b0"])
            p.op("Elem.Bytes", r="e0", o=["b1"])
    ns = 20 if tier == "quick" else 800
    for it in range(ns):
        p = g.new("C10 SetBytes structured")
        for k in range(4):
            v = rng.choice([struct_val(rng), sparse_val(rng), rng.randrange(2**255), 2**255 - 1 - rng.randrange(40)])
            p.buf("b%d" % k, le(v | (rng.randrange(2) << 255)))
            p.op("Elem.SetBytes", r="e0", a=["b%d" % k])
            p.op("Elem.Bytes", r="e0", o=["b7"])
            p.op("Elem.IsNegative", r="e0")


def partitions(items):
    """all set partitions of a list"""
    if not items:
        yield []
        return
    first, rest = items[0], items[1:]
    for part in partitions(rest):
        for i in range(len(part)):
            yield part[:i] + [[first] + part[i]] + part[i + 1:]
        yield [[first]] + part


def alias_assignments(npos, regs):
    """for positions 0..npos-1 (0 = receiver) every partition into aliased groups, as a register per position"""
    for part in partitions(list(range(npos))):
        part = sorted(part, key=min)
        asg = [None] * npos
        for gi, grp in enumerate(part):
            for pos in grp:
                asg[pos] = regs[gi]
        yield asg


def suite_C11(g, tier):
    rng = g.rng
    history_programs_scalar(g, "quick", "C11")
    history_programs_elem(g, "quick", "C11")
    reps = 1 if tier == "quick" else 6
    for _ in range(reps):
        # points
        for op, npos in [("Point.Add", 3), ("Point.Subtract", 3), ("Point.Negate", 2), ("Point.MultByCofactor", 2), ("Point.Set", 2), ("Point.Equal", 2)]:
            for asg in alias_assignments(npos, ["p0", "p1", "p2"]):
                p = g.new("C11 %s %s" % (op, asg))
                for r in sorted(set(asg)):
                    load_point(p, r, any_point(rng), rng)
                p.op(op, r=asg[0], a=asg[1:])
                if op != "Point.Equal":
                    p.op("Point.Bytes", r=asg[0], o=["b0"])
        for asg in alias_assignments(2, ["p0", "p1"]):                # ScalarMult(recv; s, q)
            for k in [0, 1, 2**251, 2**252, L - 1, rng.randrange(2**250), scalar_val(rng), bitlen_scalar(rng)]:
                p = g.new("C11 ScalarMult %s" % asg)
                for r in sorted(set(asg)):
                    load_point(p, r, any_point(rng), rng)
                load_scalar(p, "s0", k % L, rng)
                load_scalar(p, "s1", scalar_val(rng), rng)
                p.op("Point.ScalarMult", r=asg[0], a=["s0", asg[1]])
                p.op("Point.Bytes", r=asg[0], o=["b0"])
                if asg[0] == asg[1]:
                    load_point(p, asg[1], any_point(rng), rng)
                p.op("Point.VarTimeDoubleScalarBaseMult", r=asg[0], a=["s0", asg[1], "s1"])
        if _ == 0:
            long_alias_programs(g, tier, "C11")
        for alg in ["Point.MultiScalarMult", "Point.VarTimeMultiScalarMult"]:
            for asg in alias_assignments(3, ["p0", "p1", "p2"]):        # receiver, points[0], points[1]
                for sa in (["s0", "s1"], ["s0", "s0"]):
                    p = g.new("C11 %s %s %s" % (alg, asg, sa))
                    for r in sorted(set(asg)):
                        load_point(p, r, any_point(rng), rng)
                    load_scalar(p, "s0", scalar_val(rng), rng)
                    load_scalar(p, "s1", scalar_val(rng), rng)
                    p.op(alg, r=asg[0], ss=sa, ps=asg[1:])
                    p.op("Point.Bytes", r=asg[0], o=["b0"])
        for asg in alias_assignments(4, ["e0", "e1", "e2", "e3"]):       # SetExtendedCoordinates(X,Y,Z,T) sharing pointers
            p = g.new("C11 SetExtendedCoordinates %s" % asg)
            pt = rng.choice([(0, 1), (0, P - 1), any_point(rng)])
            lam = rng.randrange(1, P)
            vals = [pt[0] * lam % P, pt[1] * lam % P, lam, pt[0] * pt[1] * lam % P]
            for r in sorted(set(asg)):
                load_elem(p, r, vals[asg.index(r)], rng)
            p.op("Point.SetExtendedCoordinates", r="p0", a=asg)
        # scalars
        for op, npos in [("Scalar.Add", 3), ("Scalar.Subtract", 3), ("Scalar.Multiply", 3), ("Scalar.Negate", 2), ("Scalar.Invert", 2),
                         ("Scalar.Set", 2), ("Scalar.Equal", 2), ("Scalar.MultiplyAdd", 4)]:
            for asg in alias_assignments(npos, ["s0", "s1", "s2", "s3"]):
                p = g.new("C11 %s %s" % (op, asg))
                for r in sorted(set(asg)):
                    load_scalar(p, r, scalar_val(rng), rng)
                p.op(op, r=asg[0], a=asg[1:])
        # field elements
        for op, npos in [("Elem.Add", 3), ("Elem.Subtract", 3), ("Elem.Multiply", 3), ("Elem.Select", 3), ("Elem.SqrtRatio", 3),
                         ("Elem.Negate", 2), ("Elem.Square", 2), ("Elem.Invert", 2), ("Elem.Pow22523", 2), ("Elem.Absolute", 2),
                         ("Elem.Set", 2), ("Elem.Equal", 2), ("Elem.Mult32", 2), ("Elem.Swap", 2)]:
            for asg in alias_assignments(npos, ["e0", "e1", "e2"]):
                for cond in ((0, 1) if op in ("Elem.Select", "Elem.Swap") else (None,)):
                    p = g.new("C11 %s %s" % (op, asg))
                    for r in sorted(set(asg)):
                        load_elem(p, r, field_val(rng), rng)
                    n = cond
                    if op == "Elem.Mult32":
                        n = rng.randrange(2**32)
                    p.op(op, r=asg[0], a=asg[1:], n=n)
        # zero scalars at every position of the slices (the slices themselves must come back untouched)
        for alg in ["Point.MultiScalarMult", "Point.VarTimeMultiScalarMult"]:
            p = g.new("C11 %s zero scalars inside the slice" % alg)
            for j in range(3):
                load_point(p, "p%d" % (1 + j), any_point(rng), rng)
            p.scalar_canon("s0", 0)
            load_scalar(p, "s1", scalar_val(rng) or 3, rng)
            load_scalar(p, "s2", scalar_val(rng) or 5, rng)
            for ss in (["s0", "s1", "s2"], ["s1", "s0", "s2"], ["s0", "s0", "s1"], ["s1", "s2", "s0"], ["s0"], ["s0", "s1"]):
                p.op(alg, r=rng.choice(["p0", "p4"]), ss=ss, ps=["p1", "p2", "p3"][:len(ss)])
        # byte-slice inputs: spare capacity, live tails, one slice given to two setters
        p = g.new("C11 byte inputs")
        tail = bytes(rng.randrange(1, 256) for _ in range(64))
        p.buf("b0", enc_point(*rand_point(rng)), cap=64, tail=tail)
        p.op("Point.SetBytes", r="p0", a=["b0"])
        p.op("Elem.SetBytes", r="e0", a=["b0"])
        p.op("Scalar.SetBytesWithClamping", r="s0", a=["b0"])
        p.buf("b1", le(scalar_val(rng)), cap=96, tail=tail + tail)
        p.op("Scalar.SetCanonicalBytes", r="s1", a=["b1"])
        p.op("Scalar.SetBytesWithClamping", r="s2", a=["b1"])
        p.buf("b2", bytes(rng.randrange(256) for _ in range(64)), cap=100, tail=tail)
        p.op("Scalar.SetUniformBytes", r="s3", a=["b2"])
        p.op("Elem.SetWideBytes", r="e1", a=["b2"])
        p.buf("b3", bytes(rng.randrange(256) for _ in range(32)), cap=32)
        p.op("Scalar.SetBytesWithClamping", r="s2", a=["b3"])


def suite_C12(g, tier):
    """histories: random walks over the whole point API (validity is checked after every event of every trace)"""
    rng = g.rng
    n = 15 if tier == "quick" else 250
    for it in range(n):
        p = g.new("C12 random history")
        regs = ["p0", "p1", "p2", "p3"]
        load_point(p, "p0", any_point(rng), rng)
        load_point(p, "p1", any_point(rng), rng)
        load_scalar(p, "s0", scalar_val(rng), rng)
        load_scalar(p, "s1", scalar_val(rng), rng)
        live = ["p0", "p1"]
        steps = 10 if tier == "quick" else 20
        for k in range(steps):
            r = rng.choice(regs)
            c = rng.randrange(13)
            a, b = rng.choice(live), rng.choice(live)
            if c == 0:
                p.op("Point.Add", r=r, a=[a, b])
            elif c == 1:
                p.op("Point.Subtract", r=r, a=[a, b])
            elif c == 2:
                p.op("Point.Negate", r=r, a=[a])
            elif c == 3:
                p.op("Point.MultByCofactor", r=r, a=[a])
            elif c == 4:
                p.op("Point.ScalarMult", r=r, a=[rng.choice(["s0", "s1"]), a])
            elif c == 5:
                p.op("Point.ScalarBaseMult", r=r, a=[rng.choice(["s0", "s1"])])
            elif c == 6:
                p.op("Point.VarTimeDoubleScalarBaseMult", r=r, a=["s0", a, "s1"])
            elif c == 7:
                k2 = rng.randrange(0, 3)
                p.op(rng.choice(["Point.MultiScalarMult", "Point.VarTimeMultiScalarMult"]), r=r,
                     ss=[rng.choice(["s0", "s1"]) for _ in range(k2)], ps=[rng.choice(live) for _ in range(k2)])
            elif c == 8:
                p.op("Point.Set", r=r, a=[a])
            elif c == 9:
                p.op("Point.Bytes", r=a, o=["b0"])
                p.op("Point.SetBytes", r=r, a=["b0"])
            elif c == 10:
                p.op("Point.ExtendedCoordinates", r=a, o=["e0", "e1", "e2", "e3"])
                if rng.randrange(3) == 0:      # invalid import in the middle of a computation
                    p.op("Elem.Negate", r="e3", a=["e3"])
                p.op("Point.SetExtendedCoordinates", r=r, a=["e0", "e1", "e2", "e3"])
                if r not in live:
                    continue
            elif c == 11:
                p.buf("b1", bytes(rng.randrange(256) for _ in range(32)))
                p.op("Point.SetBytes", r=r, a=["b1"])      # fails half of the time
                if r not in live:
                    continue
            else:
                p.rescale(a, rng.randrange(1, P))
                continue
            if r not in live:
                live.append(r)
        for r in live:
            p.op("Point.Bytes", r=r, o=["b2"])
            p.op("Point.Equal", r=r, a=[live[0]])
    stale_state_programs(g, tier, "C12")
    cold_programs(g, tier, "C12")
    # degenerate imports (also C13)
    suite_C13(g, tier, only_degenerate=True)


def suite_C13(g, tier, only_degenerate=False):
    rng = g.rng
    zero_forms = [[0] * 5, limbs_plus_p(0, 1)]
    # the all-zero quadruple in zero-limb and p-limb form, every mix
    for forms in itertools.product(range(2), repeat=4) if tier != "quick" else [(0, 0, 0, 0), (1, 1, 1, 1), (0, 0, 1, 0), (1, 0, 1, 1)]:
        p = g.new("C13 zero quadruple %s" % (forms,))
        for r, f in zip(["e0", "e1", "e2", "e3"], forms):
            p.inject(r, zero_forms[f])
        prep_receiver(p, "p0", rng, rng.choice(RECV_KINDS))
        p.op("Point.SetExtendedCoordinates", r="p0", a=["e0", "e1", "e2", "e3"])
        p.op("Elem.Subtract", r="e4", a=["e0", "e0"])
        p.op("Point.SetExtendedCoordinates", r="p1", a=["e4", "e4", "e4", "e4"])
        p.op("Point.SetExtendedCoordinates", r="p2", a=["e0", "e0", "e0", "e0"])
    if only_degenerate:
        return
    # near-miss quadruples: exactly one of the two relations is off by a single power of two (Z = 1)
    bits_ = list(range(255))
    if tier == "quick":
        bits_ = sorted(rng.sample(bits_, 40))
    made = []
    for b in bits_:
        eps = 1 << b
        for which in ("curve", "xy"):
            for _ in range(20):
                X = rng.randrange(1, P)
                den = (1 - D * X * X) % P
                if which == "curve":
                    Y = sqrt((1 + X * X + eps) * inv(den) % P)          # -X^2 + Y^2 = 1 + d (XY)^2 + eps
                    if Y is None:
                        continue
                    made.append((X, Y, 1, X * Y % P))
                else:
                    # T = XY + eps and the curve equation holds:  den Y^2 - 2 d X eps Y - (1 + X^2 + d eps^2) = 0
                    A_, B_, C_ = den, (-2 * D * X * eps) % P, (-(1 + X * X + D * eps * eps)) % P
                    disc = sqrt((B_ * B_ - 4 * A_ * C_) % P)
                    if disc is None:
                        continue
                    Y = (-B_ + disc) * inv(2 * A_) % P
                    made.append((X, Y, 1, (X * Y + eps) % P))
                break
    for i in range(0, len(made), 6):
        p = g.new("C13 near-miss quadruples (one relation off by 2^b)")
        prep_receiver(p, "p0", rng, rng.choice(RECV_KINDS))
        for (X, Y, Z, T) in made[i:i + 6]:
            for r, v in zip(["e0", "e1", "e2", "e3"], [X, Y, Z, T]):
                load_elem(p, r, v, rng, "bytes")
            p.op("Point.SetExtendedCoordinates", r="p0", a=["e0", "e1", "e2", "e3"])
    n = 30 if tier == "quick" else 6000
    for it in range(n):
        p = g.new("C13 import/export")
        pt = any_point(rng)
        x, y = pt
        lam = rng.choice([1, 2, P - 1, rng.randrange(1, P)])
        X, Y, Z, T = x * lam % P, y * lam % P, lam, x * y * lam % P
        c = it % 12
        if c == 0:
            pass                                   # valid
        elif c == 1:
            T = (P - T) % P                        # T negated
        elif c == 2:
            Z = 0                                  # Z = 0, others non-zero
        elif c == 3:
            X, Y, Z, T = 0, 0, 0, 0
        elif c == 4:
            T = rng.randrange(P)                   # on curve? no: wrong T
        elif c == 5:
            Y = rng.randrange(P)
            T = X * Y * inv(Z) % P                 # T = XY/Z but off-curve
        elif c == 6:
            X = (P - X) % P
            T = (P - T) % P                        # the negated point: valid
        elif c == 7:
            Z = (Z + 1) % P
        elif c == 8:
            X, Y = Y, X
        elif c == 9:
            X, Y, Z, T = 0, lam, lam, 0            # identity, rescaled
        elif c == 10:
            X, Y, Z, T = 0, (P - lam) % P, lam, 0  # order 2
        else:
            X = (X + rng.choice([1, P - 1, 2**204])) % P
        for r, v in zip(["e0", "e1", "e2", "e3"], [X, Y, Z, T]):
            load_elem(p, r, v, rng)
        prep_receiver(p, "p0", rng, rng.choice(RECV_KINDS))
        p.op("Point.SetExtendedCoordinates", r="p0", a=["e0", "e1", "e2", "e3"])
        # export and feed back
        load_point(p, "p1", pt, rng)
        p.op("Point.ExtendedCoordinates", r="p1", o=["e4", "e5", "e6", "e7"])
        p.op("Point.SetExtendedCoordinates", r="p2", a=["e4", "e5", "e6", "e7"])
        p.op("Point.Equal", r="p2", a=["p1"])
        p.op("Point.Bytes", r="p2", o=["b0"])
        p.op("Point.Add", r="p3", a=["p2", "p1"])
        p.op("Point.ExtendedCoordinates", r="p3", o=["e4", "e5", "e6", "e7"])
        p.op("Point.SetExtendedCoordinates", r="p3", a=["e4", "e5", "e6", "e7"])


def suite_C14(g, tier):
    rng = g.rng
    n = 12 if tier == "quick" else 200
    for it in range(n):
        # Point.SetBytes: invalid inputs into every kind of receiver
        for kind in RECV_KINDS:
            p = g.new("C14 Point.SetBytes recv=%s" % kind)
            prep_receiver(p, "p0", rng, kind)
            for k in range(3):
                c = rng.randrange(4)
                if c == 0:
                    while True:
                        y = rng.choice([rng.randrange(P), rng.randrange(40), P + rng.randrange(19)])
                        if not y_on_curve(y):
                            break
                    data = le(y | (rng.randrange(2) << 255))
                elif c == 1:
                    data = bytes(rng.randrange(256) for _ in range(rng.choice([0, 1, 31, 33, 64])))
                elif c == 2:
                    data = enc_point(*any_point(rng))        # valid: succeeds
                else:
                    data = bytes(rng.randrange(256) for _ in range(32))
                p.buf("b%d" % k, data, cap=rng.choice([None, 64]))
                p.op("Point.SetBytes", r="p0", a=["b%d" % k])
            # SetExtendedCoordinates with invalid coordinates
            for r, v in zip(["e0", "e1", "e2", "e3"], [rng.randrange(P) for _ in range(4)]):
                load_elem(p, r, v, rng)
            p.op("Point.SetExtendedCoordinates", r="p0", a=["e0", "e1", "e2", "e3"])
            if kind != "zero":
                p.op("Point.Bytes", r="p0", o=["b7"])
    # scalar setters with invalid input into used receivers
    m = 15 if tier == "quick" else 300
    for it in range(m):
        p = g.new("C14 scalar setters")
        load_scalar(p, "s0", scalar_val(rng), rng)
        bad = [le(L), le(L + 1), le(L + 2**64), le(L + 2**128), le(2**252 + 2**191), le(2**253), le(2**256 - 1),
               le(L + rng.randrange(2**60)), le(rng.randrange(L, 2**256))]
        for k, s in enumerate(rng.sample(bad, 4)):
            p.buf("b%d" % k, s)
            p.op("Scalar.SetCanonicalBytes", r="s0", a=["b%d" % k])
            p.op("Scalar.Bytes", r="s0", o=["b7"])
        for k, ln in enumerate(rng.sample([0, 1, 31, 33, 63, 65, 32], 3)):
            p.buf("b%d" % (4 + k), bytes(rng.randrange(256) for _ in range(ln)))
            p.op(rng.choice(["Scalar.SetUniformBytes", "Scalar.SetBytesWithClamping", "Scalar.SetCanonicalBytes"]), r="s0", a=["b%d" % (4 + k)])
            p.op("Scalar.Bytes", r="s0", o=["b7"])
    for it in range(m):
        p = g.new("C14 element setters")
        if rng.randrange(2):
            p.inject("e0", corner_limbs(rng))
        else:
            load_elem(p, "e0", field_val(rng), rng)
        for k, ln in enumerate(rng.sample([0, 1, 31, 33, 63, 64, 65, 32], 4)):
            p.buf("b%d" % k, bytes(rng.randrange(256) for _ in range(ln)))
            p.op(rng.choice(["Elem.SetBytes", "Elem.SetWideBytes"]), r="e0", a=["b%d" % k])
            p.op("Elem.Bytes", r="e0", o=["b7"])


def suite_C15(g, tier):
    rng = g.rng
    cold_programs(g, tier, "C15")
    # the valid operands include the points whose X or Y limbs are all zero (the guard looks at exactly those limbs)
    zero_coord = [(0, 1), (0, P - 1), (SQRTM1, 0), (P - SQRTM1, 0)]
    reps = 5 if tier == "quick" else 15
    for rep in range(reps):
        vpt = zero_coord[rep] if rep < 4 else any_point(rng)
        vhow = "bytes" if rep < 4 else None
        # every operation x every Point-typed input position set to the zero value (and aliased zero values)
        cases = []
        for op in ["Point.Add", "Point.Subtract"]:
            for a, b in [("z", "v"), ("v", "z"), ("z", "z"), ("z", "y"), ("v", "v")]:
                cases.append((op, [a, b]))
        for op in ["Point.Negate", "Point.MultByCofactor", "Point.Set"]:
            cases.append((op, ["z"]))
            cases.append((op, ["v"]))
        for op, args in cases:
            for recv in ["z", "y", "v", "fresh"]:
                p = g.new("C15 %s %s recv=%s" % (op, args, recv))
                m = {"z": "p0", "y": "p1", "v": "p2", "fresh": "p3"}
                load_point(p, "p2", vpt, rng, vhow)
                p.op(op, r=m[recv], a=[m[a] for a in args])
        for op in ["Point.Bytes", "Point.BytesMontgomery", "Point.ExtendedCoordinates"]:
            p = g.new("C15 %s" % op)
            o = ["b0"] if op != "Point.ExtendedCoordinates" else ["e0", "e1", "e2", "e3"]
            p.op(op, r="p0", o=o)
            load_point(p, "p1", any_point(rng), rng)
            p.op(op, r="p1", o=o)
        p = g.new("C15 Equal")
        load_point(p, "p2", vpt, rng, vhow)
        for a, b in [("p0", "p2"), ("p2", "p0"), ("p0", "p1"), ("p0", "p0"), ("p2", "p2")]:
            p.op("Point.Equal", r=a, a=[b])
        for recv in ["p0", "p2", "p3"]:
            p = g.new("C15 scalar mults recv=%s" % recv)
            load_point(p, "p2", vpt, rng, vhow)
            load_scalar(p, "s0", scalar_val(rng), rng)
            p.op("Point.ScalarMult", r=recv, a=["s0", "p0"])
            p.op("Point.VarTimeDoubleScalarBaseMult", r=recv, a=["s0", "p0", "s0"])
            p.op("Point.ScalarMult", r="p4", a=["s0", "p1"])
            p.op("Point.ScalarBaseMult", r="p5", a=["s0"])            # zero-value receiver is fine
            p.op("Point.ScalarMult", r="p1", a=["s0", "p2"])          # zero-value pure receiver is fine
        for alg in ["Point.MultiScalarMult", "Point.VarTimeMultiScalarMult"]:
            # a zero-value Point at each position of the slice
            for n in (1, 2, 3):
                for zpos in range(n):
                    p = g.new("C15 %s n=%d zero at %d" % (alg, n, zpos))
                    load_point(p, "p2", vpt, rng, vhow)
                    load_point(p, "p3", rng.choice(zero_coord + [any_point(rng)]), rng, "bytes")
                    load_scalar(p, "s0", scalar_val(rng), rng)
                    ps = [rng.choice(["p2", "p3"]) for _ in range(n)]
                    ps[zpos] = "p0"
                    p.op(alg, r=rng.choice(["p1", "p2", "p0"]), ss=["s0"] * n, ps=ps)
            # mismatched lengths, also beyond any plausible batch size
            for ns, npts in [(0, 1), (1, 0), (1, 2), (2, 1), (0, 2), (2, 0), (3, 2), (0, 0), (2, 2)] + \
                    ([(129, 130), (130, 129), (16, 17), (17, 16), (65, 64), (257, 258)] if rep == 0 else []):
                p = g.new("C15 %s lengths %d/%d" % (alg, ns, npts))
                load_point(p, "p2", any_point(rng), rng)
                load_scalar(p, "s0", scalar_val(rng), rng)
                prep_receiver(p, "p1", rng, rng.choice(RECV_KINDS))
                p.op(alg, r="p1", ss=["s0"] * ns, ps=["p2"] * npts)
                # zero-value point AND mismatched lengths
                p.op(alg, r="p3", ss=["s0"] * ns, ps=(["p0"] * npts))


def suite_C16(g, tier):
    rng = g.rng
    n = 50 if tier == "quick" else 30000
    for it in range(n):
        p = g.new("C16 sqrt ratio")
        c = it % 10
        v = field_val(rng)
        if v == 0:
            v = 1
        k = rng.randrange(1, 40)
        if c == 0:
            u = v
        elif c == 1:
            u = k * k * v % P                       # small root k
        elif c == 2:
            u = field_val(rng) ** 2 * v % P         # square ratio
        elif c == 3:
            u = SQRTM1 * field_val(rng) ** 2 * v % P   # i * square
        elif c == 4:
            u = 0
        elif c == 5:
            u = field_val(rng)
            v = 0
        elif c == 6:
            u, v = 0, 0
        elif c == 7:
            u = (P - k * k) * v % P
        elif c == 8:
            u = SQRTM1 * k * k % P * v % P
        else:
            u = field_val(rng)
        load_elem(p, "e0", u, rng)
        load_elem(p, "e1", v, rng)
        r, a, b = rng.choice([("e2", "e0", "e1"), ("e0", "e0", "e1"), ("e1", "e0", "e1"), ("e2", "e0", "e0"), ("e0", "e0", "e0")])
        p.op("Elem.SqrtRatio", r=r, a=[a, b])
        p.op("Elem.Bytes", r=r, o=["b0"])
    # the algorithm compares v r^2 with u, -u and -u sqrt(-1): operands for which two of these candidates differ only by a
    # sparse delta (one bit, or the high bits of the limbs)
    consts = [2, (1 + SQRTM1) % P, (SQRTM1 - 1) % P, (1 - SQRTM1) % P, (P - 1 - SQRTM1) % P]
    m = 40 if tier == "quick" else 5000
    for it in range(m):
        p = g.new("C16 near-miss candidates")
        for k in range(4):
            if rng.randrange(2):
                dlt = 1 << rng.randrange(255)
            else:
                dlt = 0
                for i in range(5):
                    if rng.randrange(2):
                        lo = rng.choice([32, 33, 40, 48, 50])
                        dlt |= (rng.randrange(1, 2**(51 - lo)) << lo) << (51 * i)
            u = dlt % P * inv(rng.choice(consts)) % P
            vv = rng.choice([1, 1, field_val(rng) or 1])
            load_elem(p, "e0", u * vv % P, rng, "bytes")
            load_elem(p, "e1", vv, rng, "bytes")
            p.op("Elem.SqrtRatio", r=rng.choice(["e2", "e0"]), a=["e0", "e1"])
    for v in range(19) if tier != "quick" else [0, 1, 4]:
        p = g.new("C16 non-canonical operands")
        p.elem_from_int("e0", P + v)
        p.elem_from_int("e1", 1)
        p.op("Elem.SqrtRatio", r="e2", a=["e0", "e1"])
        p.op("Elem.SqrtRatio", r="e3", a=["e1", "e0"])
        p.op("Elem.SqrtRatio", r="e4", a=["e0", "e0"])


def suite_C17(g, tier):
    rng = g.rng
    n = 12 if tier == "quick" else 2000
    for it in range(n):
        p = g.new("C17 montgomery")
        A = any_point(rng)
        load_point(p, "p0", A, rng)
        p.op("Point.BytesMontgomery", r="p0", o=["b0"])
        p.op("Point.Negate", r="p1", a=["p0"])
        p.op("Point.BytesMontgomery", r="p1", o=["b1"])
        # receivers with history
        prep_receiver(p, "p2", rng, rng.choice(RECV_KINDS))
        p.op("Point.Add", r="p3", a=["p0", "p0"])
        p.op("Point.Negate", r="p2", a=["p3"])
        p.op("Point.BytesMontgomery", r="p2", o=["b2"])
        p.op("Point.BytesMontgomery", r="p3", o=["b3"])
        # the identity in many representations
        p.op("Point.Subtract", r="p4", a=["p0", "p0"])
        p.op("Point.BytesMontgomery", r="p4", o=["b4"])
        p.scalar_canon("s0", 0)
        p.op("Point.ScalarMult", r="p5", a=["s0", "p0"])
        p.op("Point.BytesMontgomery", r="p5", o=["b5"])
    # representations normalised on X, Y or T instead of Z (a coordinate equal to exactly 1 or -1)
    for it in range(3 if tier == "quick" else 30):
        p = g.new("C17 unit-normalised representations")
        A = any_point(rng) if it else BPT
        for k, how in enumerate(["ext-unit-x", "ext-unit-y", "ext-unit-t", "ext-unit-x-", "ext-unit-y-", "ext-unit-t-"]):
            r = "p%d" % (k % 3)
            load_point(p, r, A, rng, how)
            p.op("Point.BytesMontgomery", r=r, o=["b0"])
            p.op("Point.Bytes", r=r, o=["b1"])
            p.op("Point.Equal", r=r, a=["p%d" % ((k + 1) % 3)]) if k else None
    for t in TORS_PTS:
        p = g.new("C17 small order")
        load_point(p, "p0", t, rng)
        p.op("Point.BytesMontgomery", r="p0", o=["b0"])
        p.op("Point.MultByCofactor", r="p1", a=["p0"])
        p.op("Point.BytesMontgomery", r="p1", o=["b1"])
        p.rescale("p0", rng.randrange(2, P))
        p.op("Point.BytesMontgomery", r="p0", o=["b2"])
    p = g.new("C17 identity forms")
    p.op("NewIdentityPoint", o=["p0"])
    p.op("Point.BytesMontgomery", r="p0", o=["b0"])
    p.point_from_bytes("p1", le((P + 1) | (1 << 255)))
    p.op("Point.BytesMontgomery", r="p1", o=["b1"])
    load_point(p, "p2", (0, 1), rng, "ext-lam")
    p.op("Point.BytesMontgomery", r="p2", o=["b2"])
    # X25519 public keys: BytesMontgomery([clamp(k)]B)
    m = 4 if tier == "quick" else 500
    for it in range(m):
        p = g.new("C17 x25519")
        k = bytes(rng.randrange(256) for _ in range(32))
        if it == 0:
            k = bytes.fromhex("77076d0a7318a57d3c16c17251b26645df4c2f87ebc0992ab177fba51db92c2a")
        p.buf("b0", k)
        p.op("Scalar.SetBytesWithClamping", r="s0", a=["b0"])
        prep_receiver(p, "p0", rng, rng.choice(RECV_KINDS))
        p.op("Point.ScalarBaseMult", r="p0", a=["s0"])
        p.op("Point.BytesMontgomery", r="p0", o=["b1"])


def suite_C19(g, tier):
    rng = g.rng
    n = 10 if tier == "quick" else 150
    for it in range(n):
        p = g.new("C19 freshness")
        # constructors: mutate what they return, call again
        p.op("NewIdentityPoint", o=["p0"])
        p.op("NewGeneratorPoint", o=["p1"])
        p.op("NewScalar", o=["s0"])
        load_point(p, "p2", any_point(rng), rng)
        p.op("Point.Set", r="p0", a=["p2"])
        p.op("Point.Add", r="p1", a=["p1", "p2"])
        load_scalar(p, "s0", scalar_val(rng), rng)
        p.op("NewIdentityPoint", o=["p3"])
        p.op("NewGeneratorPoint", o=["p4"])
        p.op("NewScalar", o=["s1"])
        p.op("Point.Bytes", r="p3", o=["b0"])
        p.op("Point.Bytes", r="p4", o=["b1"])
        p.op("Scalar.Bytes", r="s1", o=["b2"])
        # ExtendedCoordinates: mutate the returned elements
        p.op("Point.ExtendedCoordinates", r="p2", o=["e0", "e1", "e2", "e3"])
        for r in ("e0", "e1", "e2", "e3"):
            p.op(rng.choice(["Elem.Zero", "Elem.One"]), r=r)
        p.op("Point.ExtendedCoordinates", r="p2", o=["e4", "e5", "e6", "e7"])
        p.op("Point.Bytes", r="p2", o=["b3"])
        # Bytes results: scribble, re-read, call again
        for src, op in [("p2", "Point.Bytes"), ("p2", "Point.BytesMontgomery"), ("p3", "Point.BytesMontgomery"), ("s0", "Scalar.Bytes"), ("e4", "Elem.Bytes")]:
            p.op(op, r=src, o=["b4"])
            p.scribble("b4")
            p.op(op, r=src, o=["b5"])
            p.scribble("b5")
            p.op(op, r=src, o=["b6"])
        p.op("Point.ScalarBaseMult", r="p5", a=["s0"])
        p.op("Point.Bytes", r="p5", o=["b0"])
    m = 6 if tier == "quick" else 80
    for it in range(m):
        # purity: the same call before and after unrelated work of varying shape
        p = g.new("C19 purity")
        for j in range(4):
            load_point(p, "p%d" % (1 + j), any_point(rng), rng)
            load_scalar(p, "s%d" % j, scalar_val(rng), rng)
        for alg in ["Point.VarTimeMultiScalarMult", "Point.MultiScalarMult"]:
            p.op(alg, r="p0", ss=["s0", "s1"], ps=["p1", "p2"])
            p.op(alg, r="p5", ss=["s0", "s1", "s2", "s3", "s0"], ps=["p1", "p2", "p3", "p4", "p2"])
            p.op(alg, r="p0", ss=["s0", "s1"], ps=["p1", "p2"])
            p.op(alg, r="p5", ss=[], ps=[])
            p.op(alg, r="p0", ss=[], ps=[])
            p.op(alg, r="p0", ss=["s2"], ps=["p3"])
            p.op(alg, r="p5", ss=["s0", "s1", "s2"], ps=["p1", "p2", "p3"])
            p.op(alg, r="p0", ss=["s2"], ps=["p3"])
        p.op("Point.VarTimeDoubleScalarBaseMult", r="p0", a=["s0", "p1", "s1"])
        p.op("Point.ScalarBaseMult", r="p5", a=["s3"])
        p.op("Point.VarTimeDoubleScalarBaseMult", r="p0", a=["s0", "p1", "s1"])
        p.op("Point.ScalarMult", r="p0", a=["s0", "p1"])
        p.op("Point.ScalarMult", r="p5", a=["s1", "p2"])
        p.op("Point.ScalarMult", r="p0", a=["s0", "p1"])
        p.op("Point.Bytes", r="p0", o=["b0"])
    stale_state_programs(g, tier, "C19")
    history_programs_scalar(g, tier, "C19")
    history_programs_elem(g, tier, "C19")
    cold_programs(g, tier, "C19")
    both_signs_programs(g, tier, "C19")


def small_operand_programs(g, tier, tag):
    """one operand with a single non-zero limb holding 2^k, 2^k - 1 or 2^k + 1 (every k up to the limb width, the limb in
    position 0 and, less often, elsewhere), the other with every limb at the top of the representation invariant: a fast
    path for 'small' multipliers (or a narrower accumulator) that is exact for reduced limbs only shows here, and only at
    the one k where its bound sits.  Both operand orders, Multiply and Mult32-free: the products are checked by value."""
    rng = g.rng
    tops = [[B0MAX] + [BIMAX] * 4, [2**51] * 5, [2**51 - 1] * 5]
    for k in range(0, 52):
        p = g.new("%s single-limb operand 2^%d against limbs at the bound" % (tag, k))
        n = 0
        for a in (2**k, 2**k - 1, 2**k + 1):
            if a >= 2**51 + 2**32 or (a == 0 and k > 0):
                continue
            pos = [0] if tier == "quick" and k % 4 else [0, rng.randrange(1, 5)]
            for ps in pos:
                la = [0] * 5
                la[ps] = a
                bs = tops if tier != "quick" else [tops[0], tops[1 + (k + n) % 2]]
                for lb in bs + [corner_limbs(rng)]:
                    p.inject("e0", la)
                    p.inject("e1", lb)
                    p.op("Elem.Multiply", r="e2", a=["e0", "e1"])
                    p.op("Elem.Multiply", r="e3", a=["e1", "e0"])
                    p.op("Elem.Equal", r="e2", a=["e3"])
                    p.op("Elem.Bytes", r="e2", o=["b0"])
                    n += 1


def suite_field_programs(g, tier):
    """C20: field-heavy programs, every aliasing pattern of Multiply / Square, corner limbs"""
    rng = g.rng
    small_operand_programs(g, tier, "C20")
    n = 40 if tier == "quick" else 1500
    for it in range(n):
        p = g.new("C20 field")
        if rng.randrange(2):
            p.inject("e0", corner_limbs(rng))
        else:
            load_elem(p, "e0", field_val(rng), rng)
        if rng.randrange(2):
            p.inject("e1", corner_limbs(rng))
        else:
            load_elem(p, "e1", field_val(rng), rng)
        for asg in alias_assignments(3, ["e0", "e1", "e2"]):
            p.op("Elem.Set", r="e5", a=["e0"])
            p.op("Elem.Set", r="e6", a=["e1"])
            p.op("Elem.Multiply", r=asg[0], a=asg[1:])
            p.op("Elem.Bytes", r=asg[0], o=["b0"])
            p.op("Elem.Set", r="e0", a=["e5"])
            p.op("Elem.Set", r="e1", a=["e6"])
        for asg in alias_assignments(2, ["e0", "e2"]):
            p.op("Elem.Set", r="e5", a=["e0"])
            p.op("Elem.Square", r=asg[0], a=asg[1:])
            p.op("Elem.Bytes", r=asg[0], o=["b0"])
            p.op("Elem.Set", r="e0", a=["e5"])
        p.op("Elem.Invert", r="e3", a=["e0"])
        p.op("Elem.Pow22523", r="e4", a=["e1"])
        p.op("Elem.SqrtRatio", r="e7", a=["e0", "e1"])
        p.op("Elem.Bytes", r="e3", o=["b1"])
        p.op("Elem.Bytes", r="e4", o=["b2"])
        p.op("Elem.Bytes", r="e7", o=["b3"])
    # a deterministic whole-API program
    m = 3 if tier == "quick" else 40
    for it in range(m):
        p = g.new("C20 whole API")
        load_point(p, "p0", any_point(rng), rng)
        load_scalar(p, "s0", scalar_val(rng), rng)
        load_scalar(p, "s1", scalar_val(rng), rng)
        p.op("Point.ScalarMult", r="p1", a=["s0", "p0"])
        p.op("Point.ScalarBaseMult", r="p2", a=["s1"])
        p.op("Point.VarTimeDoubleScalarBaseMult", r="p3", a=["s0", "p0", "s1"])
        p.op("Point.MultiScalarMult", r="p4", ss=["s0", "s1"], ps=["p0", "p2"])
        p.op("Point.VarTimeMultiScalarMult", r="p5", ss=["s0", "s1"], ps=["p0", "p2"])
        for r in ["p1", "p2", "p3", "p4", "p5"]:
            p.op("Point.Bytes", r=r, o=["b0"])
            p.op("Point.BytesMontgomery", r=r, o=["b1"])
        p.op("Point.Add", r="p1", a=["p1", "p2"])
        p.op("Point.MultByCofactor", r="p1", a=["p1"])
        p.op("Point.Bytes", r="p1", o=["b0"])
        p.op("Point.Equal", r="p4", a=["p5"])


SUITES = {
    "C01": suite_C01, "C02": suite_C02, "C04": suite_C04, "C05": suite_C05, "C06": suite_C06, "C07": suite_C07,
    "C08": suite_C08, "C09": suite_C09, "C10": suite_C10, "C11": suite_C11, "C12": suite_C12, "C13": suite_C13,
    "C14": suite_C14, "C15": suite_C15, "C16": suite_C16, "C17": suite_C17, "C19": suite_C19, "C20": suite_field_programs,
}


def generate(prop, tier, seed):
    g = Gen(seed * 1000003 + int(prop[1:]))
    Prog.shape_rng = random.Random(seed * 7919 + int(prop[1:]))      # shapes of multi-scalar slice arguments (nil / exact / spare)
    try:
        SUITES[prop](g, tier)
    finally:
        Prog.shape_rng = None
    return [p.to_json() for p in g.progs]


if __name__ == "__main__":
    import json
    import sys
    prop, tier, seed, out = sys.argv[1], sys.argv[2], int(sys.argv[3]), sys.argv[4]
    progs = generate(prop, tier, seed)
    json.dump(progs, open(out, "w"))
    print("%s %s seed=%d: %d programs, %d steps" % (prop, tier, seed, len(progs), sum(len(p["steps"]) for p in progs)))


# ---------------------------------------------------------------------------
# C03: pairs of programs with the same public shape and different secrets.
# All structural choices (operations, registers, aliasing, lengths, how a value is loaded, multipliers) are drawn
# from `sh`; all secret values (scalars, points, field elements, cond bits, prior receiver contents) from `sec`.
# Running the generator twice with the same shape seed and two secret seeds gives the two programs of a pair.

CT_LAST = {}


# Directed contrasts: a variant that uses the SAME secret stream as the base program but replaces, with probability 1/4 and
# from a stream of its own, a drawn secret by a special value (zero / one / l - 1, the identity / small-order points, 0 / 1 /
# p - 1).  The two programs of such a pair differ in a few secrets only, each of them "ordinary versus special": a branch or
# a size that depends on a secret being exactly zero (or the identity) is met without waiting for a random draw to hit it.
CT_CONTRAST = None


def _contrast(kind, normal):
    c = CT_CONTRAST
    if c is not None and c["rng"].random() < 0.25:
        return c["rng"].choice(c[kind])
    return normal


def ct_point(sec):
    # sometimes the same point as the previous one drawn from this secret stream (coincidences between secrets are secret)
    if "pt" in CT_LAST.get(id(sec), {}) and sec.randrange(4) == 0:
        return _contrast("point", CT_LAST[id(sec)]["pt"])
    pt = ct_point_fresh(sec)
    CT_LAST.setdefault(id(sec), {})["pt"] = pt
    return _contrast("point", pt)


def ct_point_fresh(sec):
    c = sec.randrange(8)
    if c == 0:
        return (0, 1)
    if c == 1:
        return sec.choice(TORS_PTS)
    if c == 2:
        return BPT
    if c == 3:
        return special_point(sec)
    if c == 4:
        return padd(rand_point(sec), sec.choice(TORS_PTS))
    return rand_point(sec)


def ct_scalar(sec):
    if "sc" in CT_LAST.get(id(sec), {}) and sec.randrange(5) == 0:
        return _contrast("scalar", CT_LAST[id(sec)]["sc"])
    k = ct_scalar_fresh(sec)
    CT_LAST.setdefault(id(sec), {})["sc"] = k
    return _contrast("scalar", k)


def ct_scalar_fresh(sec):
    c = sec.randrange(8)
    if c == 0:
        return sec.choice([0, 1, 2, 8, L - 1, L - 2, 2**252, 2**252 + 1, (L - 1) // 2])
    if c == 1:
        return (L - sec.randrange(1, 2**20)) % L          # in [2^252, l): the negatives of small numbers
    if c == 2:
        return sec.randrange(2**64)
    if c == 3:
        return int(("%x" % sec.choice([7, 8, 9, 15])) * 63, 16) % L
    return sec.randrange(L)


def ct_field(sec):
    return _contrast("field", ct_field_fresh(sec))


def ct_field_fresh(sec):
    c = sec.randrange(8)
    if c == 0:
        return sec.randrange(19)                         # loaded in the non-canonical form value + p when possible
    if c == 1:
        return sec.choice([0, 1, P - 1, 2, SQRTM1])
    if c == 2:
        return struct_val(sec) % P
    if c == 3:
        return chain_val(sec)
    return sec.randrange(P)


def ct_load_point(p, reg, how, sec):
    x, y = ct_point(sec)
    if how == "bytes":
        v = y | ((x & 1) << 255)
        if y < 19 and sec.randrange(2):
            v = (P + y) | ((x & 1) << 255)
        elif x == 0 and sec.randrange(2):
            v = y | (1 << 255)
        return p.point_from_bytes(reg, le(v))
    lam = 1 if how == "ext" else sec.randrange(1, P)
    for r, v in zip(("e4", "e5", "e6", "e7"), [x * lam % P, y * lam % P, lam % P, x * y * lam % P]):
        ct_load_elem(p, r, v, "bytes", sec)
    return p.op("Point.SetExtendedCoordinates", r=reg, a=["e4", "e5", "e6", "e7"])


def ct_load_scalar(p, reg, how, sec):
    k = ct_scalar(sec)
    if how == "canon":
        return p.scalar_canon(reg, k)
    if how == "clamp":
        p.buf("b7", bytes(sec.randrange(256) for _ in range(32)))
        return p.op("Scalar.SetBytesWithClamping", r=reg, a=["b7"])
    m = sec.randrange(2**250)
    return p.scalar_wide(reg, le(k + m * L, 64))


def ct_load_elem(p, reg, v, how, sec):
    if how == "bytes":
        hi = sec.randrange(2) << 255
        if v < 19 and sec.randrange(2):
            return p.elem_from_int(reg, (P + v) | hi)
        return p.elem_from_int(reg, (v % P) | hi)
    if how == "wide":
        p.buf("b7", le((v % P) + sec.randrange(2**250) * P, 64))
        return p.op("Elem.SetWideBytes", r=reg, a=["b7"])
    return p.inject(reg, limb_form(sec, v))


def ct_prep_receiver(p, reg, kind, sec):
    if kind == "zero":
        return
    if kind == "identity":
        p.op("NewIdentityPoint", o=[reg])
    elif kind == "generator":
        p.op("NewGeneratorPoint", o=[reg])
    elif kind == "decoded":
        p.point_from_bytes(reg, enc_point(*rand_point(sec)))
    else:
        p.point_from_bytes(reg, enc_point(*rand_point(sec)))
        p.op("Point.Add", r=reg, a=[reg, reg])


def suite_C03(shape_seed, secret_seed, tier, contrast=None):
    global CT_CONTRAST
    if contrast is None:
        CT_CONTRAST = None
    else:
        crng = random.Random(contrast * 1299709 + 5)
        CT_CONTRAST = [{"rng": crng, "scalar": [0], "point": [(0, 1)], "field": [0]},
                       {"rng": crng, "scalar": [1, L - 1, 2**252, 8], "point": [TORS_PTS[1], TORS_PTS[2], TORS_PTS[4], BPT], "field": [1, P - 1, 2]}][contrast % 2]
    try:
        return _suite_C03(shape_seed, secret_seed, tier)
    finally:
        CT_CONTRAST = None


def _suite_C03(shape_seed, secret_seed, tier):
    CT_LAST.clear()        # ("the previous secret" is per program suite; the table is keyed by object identity, which is reused)
    sh = random.Random(shape_seed * 7919 + 3)
    sec = random.Random(secret_seed * 104729 + 11)
    g = Gen(0)
    kinds = ["zero", "identity", "generator", "decoded", "arith"]
    n1 = 10 if tier == "quick" else 120
    for it in range(n1):
        p = g.new("C03 scalar multiplication")
        ct_load_point(p, "p1", sh.choice(["bytes", "ext", "ext-lam"]), sec)
        ct_load_point(p, "p2", sh.choice(["bytes", "ext-lam"]), sec)
        for j in range(3):
            ct_load_scalar(p, "s%d" % j, sh.choice(["wide", "canon", "clamp"]), sec)
        r = sh.choice(["p0", "p1"])
        if r == "p0":
            ct_prep_receiver(p, "p0", sh.choice(kinds), sec)
        p.op("Point.ScalarMult", r=r, a=["s0", "p1"])
        p.op("Point.ScalarMult", r="p5", a=["s1", "p2"])             # consecutive calls: p2 may or may not equal p1 (secret)
        p.op("Point.ScalarBaseMult", r=sh.choice(["p0", "p3"]), a=["s1"])
        n = sh.randrange(0, 4)
        p.op("Point.MultiScalarMult", r=sh.choice(["p0", "p4", "p2"]), ss=[sh.choice(["s0", "s1", "s2"]) for _ in range(n)],
             ps=[sh.choice(["p1", "p2"]) for _ in range(n)])
        p.op("Point.Bytes", r=r, o=["b0"])
        p.op("Point.BytesMontgomery", r=r, o=["b1"])
        p.op("Point.Equal", r=r, a=["p2"])
        p.op("Point.ExtendedCoordinates", r=r, o=["e0", "e1", "e2", "e3"])
    n2 = 15 if tier == "quick" else 200
    for it in range(n2):
        p = g.new("C03 point arithmetic")
        ct_load_point(p, "p0", sh.choice(["bytes", "ext", "ext-lam"]), sec)
        ct_load_point(p, "p1", sh.choice(["bytes", "ext-lam"]), sec)
        for k in range(6):
            op = sh.choice(["Point.Add", "Point.Subtract", "Point.Negate", "Point.MultByCofactor", "Point.Equal", "Point.Bytes",
                            "Point.BytesMontgomery", "Point.Set", "roundtrip"])
            r, a, b = sh.choice(["p0", "p1", "p2"]), sh.choice(["p0", "p1"]), sh.choice(["p0", "p1"])
            if op in ("Point.Add", "Point.Subtract"):
                p.op(op, r=r, a=[a, b])
            elif op in ("Point.Negate", "Point.MultByCofactor", "Point.Set"):
                p.op(op, r=r, a=[a])
            elif op == "Point.Equal":
                p.op(op, r=a, a=[b])
            elif op == "roundtrip":
                p.op("Point.Bytes", r=a, o=["b2"])
                p.op("Point.SetBytes", r="p3", a=["b2"])
                p.op("Point.ExtendedCoordinates", r=a, o=["e0", "e1", "e2", "e3"])
                p.op("Point.SetExtendedCoordinates", r="p4", a=["e0", "e1", "e2", "e3"])
            else:
                p.op(op, r=a, o=["b0"])
    n3 = 15 if tier == "quick" else 200
    for it in range(n3):
        p = g.new("C03 scalars")
        for j in range(3):
            ct_load_scalar(p, "s%d" % j, sh.choice(["wide", "canon", "clamp"]), sec)
        for k in range(6):
            op = sh.choice(["Scalar.Add", "Scalar.Subtract", "Scalar.Multiply", "Scalar.Negate", "Scalar.MultiplyAdd", "Scalar.Equal",
                            "Scalar.Bytes", "Scalar.Invert", "Scalar.Set"])
            r = sh.choice(["s0", "s1", "s3"])
            x, y, z = sh.choice(["s0", "s1", "s2"]), sh.choice(["s0", "s1", "s2"]), sh.choice(["s0", "s1", "s2"])
            if op in ("Scalar.Add", "Scalar.Subtract", "Scalar.Multiply"):
                p.op(op, r=r, a=[x, y])
            elif op in ("Scalar.Negate", "Scalar.Invert", "Scalar.Set"):
                p.op(op, r=r, a=[x])
            elif op == "Scalar.MultiplyAdd":
                p.op(op, r=r, a=[x, y, z])
            elif op == "Scalar.Equal":
                p.op(op, r=x, a=[y])
            else:
                p.op(op, r=x, o=["b0"])
    n4 = 30 if tier == "quick" else 400
    for it in range(n4):
        p = g.new("C03 field elements")
        for j in range(3):
            ct_load_elem(p, "e%d" % j, ct_field(sec), sh.choice(["bytes", "wide", "inject"]), sec)
        for k in range(8):
            op = sh.choice(FE_BIN + FE_UN + ["Elem.Select", "Elem.Swap", "Elem.Equal", "Elem.IsNegative", "Elem.Bytes", "Elem.Mult32",
                                             "Elem.SqrtRatio", "Elem.Set"])
            r = sh.choice(["e0", "e1", "e3"])
            x, y = sh.choice(["e0", "e1", "e2"]), sh.choice(["e0", "e1", "e2"])
            if op in FE_BIN or op == "Elem.SqrtRatio":
                p.op(op, r=r, a=[x, y])
            elif op in FE_UN or op == "Elem.Set":
                p.op(op, r=r, a=[x])
            elif op == "Elem.Select":
                p.op(op, r=r, a=[x, y], n=sec.randrange(2))
            elif op == "Elem.Swap":
                p.op(op, r=x, a=[y], n=sec.randrange(2))
            elif op == "Elem.Equal":
                p.op(op, r=x, a=[y])
            elif op == "Elem.Mult32":
                p.op(op, r=r, a=[x], n=sh.choice([0, 1, 121665, 2**32 - 1, sh.randrange(2**32)]))
            elif op == "Elem.IsNegative":
                p.op(op, r=x)
            else:
                p.op(op, r=x, o=["b0"])
    return [p.to_json() for p in g.progs]


# ---------------------------------------------------------------------------
# C18: concurrent cold-start scenarios.  Registers 0 and 1 of every kind are shared between the goroutines and
# only read; registers >= 2 are private to each goroutine.
def conc_scenario(sid, rng, G, first_ops=None):
    pre = Prog(0, "prelude")
    load_point(pre, "p0", any_point(rng), rng, rng.choice(["bytes", "ext-lam"]), scratch=("e0", "e1", "e2", "e3"))
    load_point(pre, "p1", (0, 1) if rng.randrange(3) == 0 else any_point(rng), rng, rng.choice(["bytes", "ext-lam"]))
    load_scalar(pre, "s0", 0 if rng.randrange(4) == 0 else scalar_val(rng), rng, "canon")
    load_scalar(pre, "s1", scalar_val(rng), rng, "canon")
    load_elem(pre, "e0", field_val(rng), rng, rng.choice(["inject", "bytes"]))
    load_elem(pre, "e1", rng.randrange(19), rng, "bytes")          # often in the non-canonical form value + p
    # shared input buffers (read-only for every goroutine): with spare capacity and a live tail
    pre.buf("b0", bytes(rng.randrange(256) for _ in range(32)), cap=96, tail=bytes(rng.randrange(1, 256) for _ in range(64)))
    pre.buf("b1", enc_point(*rand_point(rng)), cap=64, tail=bytes(rng.randrange(1, 256) for _ in range(32)))
    # every second scenario starts in a WARM process: the prelude has already gone through every operation that keeps state
    # between calls (lazily built tables, pools, memos), with term counts on both sides of the usual batch widths
    if sid % 2 == 1:
        for n in (rng.choice([1, 2]), 9):
            pre.op(rng.choice(["Point.MultiScalarMult", "Point.VarTimeMultiScalarMult"]), r="p5",
                   ss=[["s0", "s1"][i % 2] for i in range(n)], ps=[["p0", "p1"][(i // 2) % 2] for i in range(n)])
        pre.op("Point.ScalarBaseMult", r="p2", a=["s1"])
        pre.op("Point.VarTimeDoubleScalarBaseMult", r="p3", a=["s0", "p0", "s1"])
        pre.op("Point.ScalarMult", r="p4", a=["s1", "p0"])
        pre.op("Scalar.Invert", r="s3", a=["s1"])
        pre.op("Elem.Invert", r="e3", a=["e0"])
        pre.op("Point.ExtendedCoordinates", r="p0", o=["e4", "e5", "e6", "e7"])
        pre.op("Point.Bytes", r="p0", o=["b4"])
        pre.op("Point.BytesMontgomery", r="p0", o=["b5"])
    gors = []
    first = rng.choice(["same-base", "same-naf", "mixed", "staggered", "staggered"])
    for g in range(G):
        p = Prog(sid * 100 + g + 1, "C18 scenario %d goroutine %d" % (sid, g + 1))
        load_scalar(p, "s2", scalar_val(rng), rng, "canon")
        ops = ["base", "naf", "mult", "msm", "vmsm", "add", "misc"]
        rng.shuffle(ops)
        if first_ops is not None:
            # schedule replay: the goroutine's first table use is the one the specification's behaviour gives it
            ops = [o for o in ops if o not in ("base", "naf")]
            if first_ops[g] in ("base", "naf"):
                ops = [first_ops[g], "naf" if first_ops[g] == "base" else "base"] + ops
        elif first == "staggered":
            # arrivals at the lazily built state spread over time: goroutine g does g mod 4 pieces of other work first,
            # then alternates between the two table users
            other = [o for o in ops if o not in ("base", "naf")]
            tbl = ["naf", "base"] if g % 3 else ["base", "naf"]
            ops = other[: g % 4] + tbl + other[g % 4:]
        elif first == "same-base" or (first == "mixed" and g % 2 == 0):
            ops.remove("base")
            ops.insert(0, "base")
        else:
            ops.remove("naf")
            ops.insert(0, "naf")
        for op in ops[: (3 if first_ops is not None else rng.randrange(3, 7) if first != "staggered" else 6)]:
            if op == "base":
                p.op("Point.ScalarBaseMult", r="p2", a=[rng.choice(["s0", "s2"])])
                p.op("Point.Bytes", r="p2", o=["b2"])
            elif op == "naf":
                p.op("Point.VarTimeDoubleScalarBaseMult", r="p3", a=[rng.choice(["s0", "s2"]), rng.choice(["p0", "p1"]), "s1"])
                p.op("Point.Bytes", r="p3", o=["b3"])
            elif op == "mult":
                p.op("Point.ScalarMult", r="p4", a=["s1", rng.choice(["p0", "p1"])])
            elif op == "msm":
                n = rng.choice([3, 3, 1, 2, 9])
                p.op("Point.MultiScalarMult", r="p5", ss=[["s0", "s2", "s1"][i % 3] for i in range(n)], ps=[["p0", "p1", "p0"][i % 3] for i in range(n)])
                p.op("Point.Bytes", r="p5", o=["b4"])
            elif op == "vmsm":
                n = rng.choice([1, 2, 3, 3, 9])
                p.op("Point.VarTimeMultiScalarMult", r="p5", ss=[["s0", "s2", "s1"][i % 3] for i in range(n)], ps=[["p0", "p1", "p0"][i % 3] for i in range(n)])
                p.op("Point.Bytes", r="p5", o=["b4"])
            elif op == "add":
                p.op("Point.Add", r="p2", a=["p0", "p1"])
                p.op("Point.Equal", r="p0", a=["p1"])
                p.op("Point.BytesMontgomery", r="p0", o=["b5"])
            else:
                p.op("NewGeneratorPoint", o=["p4"])
                p.op("NewIdentityPoint", o=["p5"])
                p.op("Scalar.MultiplyAdd", r="s3", a=["s0", "s1", "s2"])
                p.op("Scalar.Invert", r="s4", a=["s0"])
                p.op("Elem.Multiply", r="e2", a=["e0", "e1"])
                p.op("Elem.Invert", r="e3", a=["e0"])
                p.op("Elem.SqrtRatio", r="e4", a=["e0", "e1"])
                p.op("Elem.Equal", r="e0", a=["e1"])
                p.op("Elem.Equal", r="e1", a=["e0"])
                p.op("Elem.IsNegative", r="e1")
                p.op("Elem.Bytes", r="e0", o=["b6"])
                p.op("Point.SetExtendedCoordinates", r="p4", a=["e0", "e1", "e1", "e0"])
                p.op("Point.ExtendedCoordinates", r="p0", o=["e4", "e5", "e6", "e7"])
                p.op("Scalar.Equal", r="s0", a=["s1"])
                p.op("Scalar.Bytes", r="s1", o=["b5"])
                p.op("Point.Bytes", r="p1", o=["b4"])
                # decoders reading the shared buffers; every returned buffer is the goroutine's own: it writes into it
                p.op("Scalar.SetBytesWithClamping", r="s3", a=["b0"])
                p.op("Scalar.SetCanonicalBytes", r="s4", a=["b0"])
                p.op("Elem.SetBytes", r="e2", a=["b0"])
                p.op("Point.SetBytes", r="p4", a=["b1"])
                p.op("Point.BytesMontgomery", r="p1", o=["b6"])
                for bb in ("b4", "b5", "b6"):
                    p.scribble(bb)
                p.op("Point.BytesMontgomery", r="p1", o=["b6"])
                p.op("Point.Bytes", r="p1", o=["b4"])
        gors.append(p.to_json())
    return {"id": sid, "prelude": pre.steps, "goroutines": gors}
