# Shared machinery of bin/check: building the driver from the working tree,
# running TLC (model checking of toy instances, trace validation at the real
# constants), collecting verdicts and writing evidence.
import json
import os
import re
import shutil
import subprocess
import sys
import tempfile
import time

VERIF = os.path.dirname(os.path.dirname(os.path.abspath(__file__)))
SPEC = os.path.join(VERIF, "spec")
TLA_JAR = "/opt/veriftools/tla/tla2tools.jar"
CM_JAR = "/opt/veriftools/tla/CommunityModules-deps.jar"
NCPU = os.cpu_count() or 4


class Infra(Exception):
    """a problem of the machinery (exit 2), never a verdict"""


def repo():
    return os.environ.get("VERIF_REPO", "/repo")


def seed():
    try:
        return int(os.environ.get("VERIF_SEED", "1"))
    except ValueError:
        return 1


def goenv():
    e = dict(os.environ)
    e.update({"GOFLAGS": "-mod=mod", "GOPROXY": "off", "GOSUMDB": "off", "GOTOOLCHAIN": "local"})
    return e


def run(cmd, timeout, env=None, cwd=None, stdin=None):
    try:
        r = subprocess.run(cmd, stdout=subprocess.PIPE, stderr=subprocess.STDOUT, timeout=timeout, env=env, cwd=cwd, input=stdin)
        return r.returncode, r.stdout.decode("utf-8", "replace")
    except subprocess.TimeoutExpired as ex:
        out = ex.stdout.decode("utf-8", "replace") if ex.stdout else ""
        return 124, out + "\n[timeout after %ss]" % timeout


class Work:
    """a scratch directory with a copy of the spec (TLC litters next to the modules)"""

    def __init__(self, tag):
        self.dir = tempfile.mkdtemp(prefix="verif-%s-" % tag)
        self.spec = os.path.join(self.dir, "spec")
        shutil.copytree(SPEC, self.spec, ignore=shutil.ignore_patterns("*.class", "states", "*.old"))
        self.ensure_bignat()

    def ensure_bignat(self):
        built = os.path.join(VERIF, "build", "BigNat.class")
        src = os.path.join(SPEC, "BigNat.java")
        if not os.path.exists(built) or os.path.getmtime(built) < os.path.getmtime(src):
            os.makedirs(os.path.dirname(built), exist_ok=True)
            rc, out = run(["javac", "-cp", TLA_JAR, "-d", os.path.dirname(built), src], 120)
            if rc != 0:
                raise Infra("javac BigNat.java failed:\n" + out)
        shutil.copy(built, os.path.join(self.spec, "BigNat.class"))

    def cleanup(self):
        shutil.rmtree(self.dir, ignore_errors=True)


SHIM_SRC = os.path.join(VERIF, "hooks", "shim", "zz_verif_shim.go")


def build_driver_with_shim(work, tags=None, name="edrv"):
    """try to build the driver with the in-package shim (tag verifshim, overlay-added file); returns (path, has_shim).
    A shim that no longer compiles against the tree is dropped (recorded by the caller), never an error."""
    ov = os.path.join(work.dir, "shim-overlay.json")
    with open(ov, "w") as f:
        json.dump({"Replace": {os.path.join(os.path.abspath(repo()), "zz_verif_shim.go"): SHIM_SRC}}, f)
    t = "verifshim" + ("," + tags if tags else "")
    try:
        return build_driver(work, tags=t, name=name + "_shim", extra=["-overlay", ov]), True
    except Infra:
        return build_driver(work, tags=tags, name=name), False


def build_driver(work, tags=None, name="edrv", extra=None):
    out = os.path.join(work.dir, name)
    cmd = [os.path.join(VERIF, "bin", "build_driver"), repo(), out]
    if tags:
        cmd += ["-tags", tags]
    if extra:
        cmd += extra
    rc, o = run(cmd, 600, env=goenv())
    if rc != 0:
        raise Infra("driver build failed (does the tree compile?):\n" + o[-3000:])
    return out


TLC_STATS = re.compile(r"(\d+) states generated, (\d+) distinct states found")


def tlc(work, module, cfg=None, workers=1, timeout=600, env_extra=None, heap="4g", simulate=None, extra=None):
    """run TLC in the scratch spec dir; returns (rc, output, states_generated, distinct)"""
    md = tempfile.mkdtemp(prefix="md-", dir=work.dir)
    env = dict(os.environ)
    env["JAVA_TOOL_OPTIONS"] = "-Xss64m -Xmx%s -Djava.io.tmpdir=%s" % (heap, md)      # TLC's scratch directory goes away with the work dir
    if env_extra:
        env.update(env_extra)
    cmd = ["java", "-XX:+UseParallelGC", "-cp", TLA_JAR + ":" + CM_JAR, "tlc2.TLC", "-workers", str(workers), "-metadir", md]
    if cfg:
        cmd += ["-config", cfg]
    if simulate:
        cmd += simulate
    if extra:
        cmd += extra
    cmd += [module]
    rc, out = run(cmd, timeout, env=env, cwd=work.spec)
    shutil.rmtree(md, ignore_errors=True)
    gen = dist = 0
    for m in TLC_STATS.finditer(out):
        gen, dist = int(m.group(1)), int(m.group(2))
    return rc, out, gen, dist


def tlc_ok(out):
    return "Model checking completed. No error has been found." in out or "Finished computing" in out and "No error has been found" in out


def model_check(work, module, cfg, workers=NCPU, timeout=900, env_extra=None, heap="8g", expect_violation=False):
    """exhaustive TLC run of a toy instance / real-size enumeration; a failure is a defect of the spec (Infra)"""
    t0 = time.time()
    rc, out, gen, dist = tlc(work, module, cfg, workers=workers, timeout=timeout, env_extra=env_extra, heap=heap)
    ok = "No error has been found" in out
    res = {"module": module, "cfg": cfg, "states": dist, "transitions": gen, "wall_s": round(time.time() - t0, 1),
           "override": "operator override" in out or "BigNat" in out and "Loading" in out}
    if expect_violation:
        viol = "is violated" in out or "Invariant" in out and "violated" in out
        res["violation_found"] = viol
        if not viol:
            raise Infra("vacuity test: %s/%s was expected to find a counterexample but did not:\n%s" % (module, cfg, out[-2000:]))
        return res
    if not ok:
        raise Infra("model checking %s/%s failed (rc=%d) -- a defect of the specification, not a verdict:\n%s" % (module, cfg, rc, out[-4000:]))
    if dist == 0:
        raise Infra("model checking %s/%s explored no states" % (module, cfg))
    return res


# distinct (operation, aliasing pattern of receiver/arguments, outcome) classes seen in validated traces, per check label
TRANSITION_CLASSES = {}

VFAIL = re.compile(r'^"VFAIL (.*)"$')
VSTATS = re.compile(r'^"VSTATS (.*)"$')
VDONE = re.compile(r'^"VDONE (.*)"$')


def unq(s):
    return json.loads('"' + s + '"')


def validate_trace(work, trace_path, cfg="TraceApi.cfg", module="TraceApi", timeout=1800, heap="3g", trace_b=None):
    """TLC trace validation of one NDJSON trace; returns dict(fails=[...], events, conjuncts, states, transitions)"""
    envx = {"VERIF_TRACE": trace_path}
    if trace_b:
        envx["VERIF_TRACE_B"] = trace_b
    rc, out, gen, dist = tlc(work, module, cfg, workers=1, timeout=timeout, env_extra=envx, heap=heap)
    fails, stats, done = [], None, None
    for line in out.splitlines():
        m = VFAIL.match(line)
        if m:
            fails.append(json.loads(unq(m.group(1))))
            continue
        m = VSTATS.match(line)
        if m:
            stats = json.loads(unq(m.group(1)))
            continue
        m = VDONE.match(line)
        if m:
            done = json.loads(unq(m.group(1)))
    if done is None or done["lines"] != done["consumed"] or "No error has been found" not in out or stats is None:
        raise Infra("trace validation did not complete for %s (rc=%d):\n%s" % (trace_path, rc, out[-4000:]))
    # de-duplicate (TLC may evaluate a step more than once)
    seen, uniq = set(), []
    for f in fails:
        k = (f["line"], json.dumps(f["fails"], sort_keys=True))
        if k not in seen:
            seen.add(k)
            uniq.append(f)
    return {"fails": uniq, "events": stats["events"], "conjuncts": stats["conjuncts"], "states": dist, "transitions": gen,
            "lines": done["lines"]}


def run_driver(driver, progs, work, name, cold=False):
    pj = os.path.join(work.dir, name + ".json")
    tj = os.path.join(work.dir, name + ".ndjson")
    with open(pj, "w") as f:
        json.dump(progs, f)
    rc, out = run([driver, "run", pj, tj], 1800, env=dict(os.environ, VERIF_COLD="1") if cold else None)
    if rc != 0:
        raise Infra("driver failed (rc=%d) on %s:\n%s" % (rc, name, out[-3000:]))
    return tj


def validate_programs(work, driver, progs, label, chunks=None, cfg="TraceApi.cfg", module="TraceApi"):
    """execute the programs with the driver (real code) and validate the traces with TLC, in parallel chunks.
    Returns (fails, totals) where every fail carries the program that produced it."""
    import concurrent.futures as cf
    if not progs:
        return [], {"programs": 0, "events": 0, "conjuncts": 0, "states": 0, "transitions": 0, "traces": 0}
    if chunks is None:
        total_steps = sum(len(p["steps"]) for p in progs)
        chunks = max(1, min(NCPU, total_steps // 150 + 1))
    # balance by number of steps; scalar multiplications are the expensive events
    def cost(p):
        c = 0
        for s in p["steps"]:
            c += 40 if ("Mult" in s["op"] and s["op"].startswith("Point.")) else 1
        return c
    buckets = [[] for _ in range(chunks)]
    loads = [0] * chunks
    for p in sorted(progs, key=cost, reverse=True):
        i = loads.index(min(loads))
        buckets[i].append(p)
        loads[i] += cost(p)
    buckets = [b for b in buckets if b]
    traces = []
    for i, b in enumerate(buckets):
        warm = [p for p in b if not p.get("cold")]
        cold = [p for p in b if p.get("cold")]
        tr = run_driver(driver, warm, work, "%s-%d" % (label, i)) if warm else None
        # "cold" programs run in a process of their own each (lazily built tables, pools and caches are in their initial state)
        for j, p in enumerate(cold):
            tc = run_driver(driver, [p], work, "%s-%d-cold%d" % (label, i, j), cold=True)
            if tr is None:
                tr = tc
            else:
                with open(tr, "a") as f:
                    f.write(open(tc).read())
                os.remove(tc)
        traces.append(tr)
    byid = {p["id"]: p for p in progs}
    fails = []
    tot = {"programs": len(progs), "events": 0, "conjuncts": 0, "states": 0, "transitions": 0, "traces": len(traces)}
    classes = TRANSITION_CLASSES.setdefault(label.split("-")[0], set())
    for t in traces:
        for line in open(t):
            if '"op":"Reset"' in line[:80]:
                continue
            try:
                ev = json.loads(line)
            except ValueError:
                continue
            pos = [ev.get("recv", "")] + list(ev.get("args", [])) + list(ev.get("ss", [])) + list(ev.get("ps", []))
            names = {}
            sig = tuple(names.setdefault(n, len(names)) if n else -1 for n in pos)
            classes.add((ev["op"], sig, "panic" if ev.get("panic") else ("err" if ev.get("err") else "ok")))
    with cf.ThreadPoolExecutor(max_workers=min(NCPU, len(traces))) as ex:
        futs = [ex.submit(validate_trace, work, t, cfg, module) for t in traces]
        for fu in futs:
            r = fu.result()
            for k in ("events", "conjuncts", "states", "transitions"):
                tot[k] += r[k]
            for f in r["fails"]:
                f["program"] = byid.get(f["prog"])
                fails.append(f)
    return fails, tot


# ---------------------------------------------------------------------------
# known findings and verdicts

def load_known():
    path = os.path.join(VERIF, "known_findings.json")
    if not os.path.exists(path):
        return {"open": [], "fixed": []}
    return json.load(open(path))


def write_replay(prop, n, payload):
    d = os.path.join(VERIF, "replays", prop)
    os.makedirs(d, exist_ok=True)
    path = os.path.join(d, "%d-%d.json" % (seed(), n))
    with open(path, "w") as f:
        json.dump(payload, f, indent=1)
    return path


def write_evidence(prop, tier, coverage, wall, violations, assumptions, level="model_checking"):
    # (bin/mutants.py runs the checks against scratch trees: their evidence must not replace the evidence about /repo)
    d = os.environ.get("VERIF_EVIDENCE_DIR") or os.path.join(VERIF, "evidence")
    os.makedirs(d, exist_ok=True)
    ev = {"property_id": prop, "tier": tier, "seed": seed(), "level": level, "coverage": coverage,
          "assumptions": assumptions, "wall_s": round(wall, 1), "violations": violations}
    with open(os.path.join(d, prop + ".json"), "w") as f:
        json.dump(ev, f, indent=1 if len(json.dumps(ev)) < 20000 else None)


def sample_programs(progs, k=3):
    out = []
    for p in progs[:: max(1, len(progs) // k)][:k]:
        st = [dict(x) for x in p["steps"]]
        for x in st:
            for k in ("bytes", "tail"):
                if k in x:
                    x[k] = "hex:" + bytes(x[k]).hex()
        out.append({"id": p["id"], "note": p.get("note", ""), "steps": st[:12] + ([{"op": "... %d more" % (len(st) - 12)}] if len(st) > 12 else [])})
    return out


def asm_model(work, cfg="MC_Asm.cfg", timeout=3000):
    """extract the .s routines of the working tree and execute them with the Asm machine (TLC, real parameters).
    Returns a result dict; 'failed' carries the counterexample operands when an invariant is violated."""
    import asmx
    info = asmx.extract(repo(), work.spec)
    t0 = time.time()
    rc, out, gen, dist = tlc(work, "MC_Asm", cfg, workers=NCPU, timeout=timeout, heap="12g")
    res = {"module": "MC_Asm", "cfg": cfg, "states": dist, "transitions": gen, "wall_s": round(time.time() - t0, 1), "extracted": info}
    if "No error has been found" in out:
        return res
    m = re.search(r"Invariant (\w+) is violated", out)
    if not m:
        raise Infra("MC_Asm failed without an invariant violation:\n" + out[-3000:])
    res["failed"] = m.group(1)
    def vec(name):
        mm = re.findall(r"/\\ %s = (<<.*?>>)\n" % name, out)
        if not mm:
            return None
        limbs = re.findall(r"<<([\d, ]*)>>", mm[-1][2:-2])
        vals = []
        for l in limbs:
            bs = [int(x) for x in l.split(",") if x.strip()]
            vals.append(sum(b << (8 * i) for i, b in enumerate(bs)))
        return vals
    res["a"], res["b"] = vec("a"), vec("b")
    return res
