// asmct calls field.Element.Multiply / Square a fixed number of times on one operand pair given on the command line
// (five decimal limbs each).  It is run under `valgrind --tool=callgrind`: the number of instructions executed inside the
// assembly routines feMul / feSquare per call is the observation (bin/special_c03.py compares it across secret operands).
package main

import (
	"fmt"
	"os"
	"strconv"
	"unsafe"

	"filippo.io/edwards25519/field"
)

func elem(args []string) *field.Element {
	var l [5]uint64
	for i := range l {
		v, err := strconv.ParseUint(args[i], 10, 64)
		if err != nil {
			fmt.Fprintln(os.Stderr, err)
			os.Exit(2)
		}
		l[i] = v
	}
	e := new(field.Element)
	if unsafe.Sizeof(*e) != unsafe.Sizeof(l) {
		fmt.Fprintln(os.Stderr, "layout")
		os.Exit(2)
	}
	*(*[5]uint64)(unsafe.Pointer(e)) = l
	return e
}

func main() {
	if len(os.Args) != 12 {
		fmt.Fprintln(os.Stderr, "usage: asmct <n> a0..a4 b0..b4")
		os.Exit(2)
	}
	n, _ := strconv.Atoi(os.Args[1])
	a, b := elem(os.Args[2:7]), elem(os.Args[7:12])
	var out, sq field.Element
	for i := 0; i < n; i++ {
		out.Multiply(a, b)
		sq.Square(a)
	}
	fmt.Printf("%x %x\n", out.Bytes(), sq.Bytes())
}
