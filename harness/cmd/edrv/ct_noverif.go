//go:build !verif

package main

import "errors"

func runCT(progFile, obsFile string) error {
	return errors.New("edrv: built without -tags verif and the instrumentation overlay")
}

func runConc(scnFile, traceFile, concFile string) error {
	return errors.New("edrv: built without -tags verif and the instrumentation overlay")
}
