//go:build verif

package main

import (
	"bufio"
	"encoding/json"
	"fmt"
	"os"
	"strconv"
	"strings"
	"sync"

	"filippo.io/edwards25519/verifrt"
)

// runCT executes the programs with the instrumented library (built with -tags verif -overlay) and writes, per
// API call, the sequence of observations made inside the library (spec/TraceCT.tla compares two such traces).
func runCT(progFile, obsFile string) error {
	data, err := os.ReadFile(progFile)
	if err != nil {
		return err
	}
	var progs []Program
	if err := json.Unmarshal(data, &progs); err != nil {
		return err
	}
	f, err := os.Create(obsFile)
	if err != nil {
		return err
	}
	defer f.Close()
	w := bufio.NewWriterSize(f, 1<<20)
	defer w.Flush()
	enc := json.NewEncoder(w)
	for _, p := range progs {
		r := newRegs()
		for i := range p.Steps {
			st := &p.Steps[i]
			var obs []verifrt.Obs
			panicked, errd := 0, 0
			func() {
				defer func() {
					obs = verifrt.Stop()
					if x := recover(); x != nil {
						if s, ok := x.(string); ok && len(s) > 5 && s[:5] == "edrv:" {
							panic(x)
						}
						panicked = 1
					}
				}()
				verifrt.Start()
				res := exec(r, st)
				if res.err {
					errd = 1
				}
			}()
			o := make([]string, len(obs))
			for k, x := range obs {
				o[k] = fmt.Sprintf("%d%c%d", x.Site, x.Kind, x.Val)
			}
			if err := enc.Encode(map[string]interface{}{"prog": p.ID, "i": i + 1, "op": st.Op, "err": errd, "panic": panicked, "obs": o}); err != nil {
				return err
			}
		}
	}
	return nil
}

// runConc executes one concurrent scenario in this (fresh) process: a sequential prelude on the shared register
// file, then one program per goroutine, all released together.  Goroutine g may only write registers whose
// number is >= 2 (its private ones); registers 0 and 1 of every kind are shared and only read.
// The function entry/exit log (sequence numbers taken under one mutex) is written next to the traces.
func runConc(scnFile, traceFile, concFile string) error {
	data, err := os.ReadFile(scnFile)
	if err != nil {
		return err
	}
	var scn struct {
		ID      int       `json:"id"`
		Prelude []Step    `json:"prelude"`
		Gor     []Program `json:"goroutines"`
	}
	if err := json.Unmarshal(data, &scn); err != nil {
		return err
	}
	// the builder/getter log starts before the prelude: in a warm scenario the tables are built there (by goroutine -1)
	var watch []int
	for _, f := range strings.Split(os.Getenv("VERIF_WATCH"), ",") {
		if v, err := strconv.Atoi(f); err == nil {
			watch = append(watch, v)
		}
	}
	verifrt.ConcStart(watch)
	shared := newRegs()
	var prelude []Event
	for i := range scn.Prelude {
		prelude = append(prelude, runStep(shared, 0, i+1, &scn.Prelude[i]))
	}
	n := len(scn.Gor)
	events := make([][]Event, n)
	start := make(chan struct{})
	var wg sync.WaitGroup
	if c, err := strconv.ParseUint(os.Getenv("VERIF_CHAOS"), 10, 64); err == nil {
		verifrt.SetChaos(c)
	}
	for g := 0; g < n; g++ {
		wg.Add(1)
		go func(g int) {
			defer wg.Done()
			verifrt.Register(g + 1)
			r := newRegs()
			// registers 0 and 1 of every kind are shared; the others start as private copies of the prelude's
			for k := 0; k < 2; k++ {
				r.p[k], r.s[k], r.e[k], r.b[k] = shared.p[k], shared.s[k], shared.e[k], shared.b[k]
			}
			for k := 2; k < nPoints; k++ {
				*r.p[k] = *shared.p[k]
			}
			for k := 2; k < nScalars; k++ {
				*r.s[k] = *shared.s[k]
			}
			for k := 2; k < nElems; k++ {
				*r.e[k] = *shared.e[k]
			}
			for k := 2; k < nBufs; k++ {
				if shared.b[k] != nil {
					full := append([]byte(nil), shared.b[k][:cap(shared.b[k])]...)
					r.b[k] = full[:len(shared.b[k])]
				}
			}
			<-start
			for i := range scn.Gor[g].Steps {
				events[g] = append(events[g], runStep(r, scn.Gor[g].ID, len(prelude)+i+1, &scn.Gor[g].Steps[i]))
			}
		}(g)
	}
	close(start)
	wg.Wait()
	log := verifrt.ConcStop()
	f, err := os.Create(traceFile)
	if err != nil {
		return err
	}
	defer f.Close()
	w := bufio.NewWriterSize(f, 1<<20)
	defer w.Flush()
	enc := json.NewEncoder(w)
	// one sequential program per goroutine: Reset, the prelude (as executed once on the shared registers), its own events
	for g := 0; g < n; g++ {
		enc.Encode(map[string]interface{}{"prog": scn.Gor[g].ID, "i": 0, "op": "Reset"})
		for _, ev := range prelude {
			ev.Prog = scn.Gor[g].ID
			if g > 0 {
				ev.Adopt = 1 // the prelude ran once; it is validated in the first goroutine's program
			}
			enc.Encode(&ev)
		}
		for _, ev := range events[g] {
			enc.Encode(&ev)
		}
	}
	cf, err := os.Create(concFile)
	if err != nil {
		return err
	}
	defer cf.Close()
	cw := bufio.NewWriter(cf)
	defer cw.Flush()
	cenc := json.NewEncoder(cw)
	for _, e := range log {
		ex := 0
		if e.Exit {
			ex = 1
		}
		cenc.Encode(map[string]interface{}{"seq": e.Seq, "g": e.G, "func": e.Func, "exit": ex})
	}
	return nil
}
