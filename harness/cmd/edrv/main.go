// edrv executes programs (sequences of calls of the exported API of
// filippo.io/edwards25519 on a small register file) against the library built
// from the working tree, and records one NDJSON trace event per call, logged
// at the call's return (also on the error and panic paths).  It contains no
// oracle: expected values are computed by the TLA+ specification
// (spec/TraceApi.tla), which validates the trace.
//
//	edrv run  <programs.json> <trace.ndjson>
//	edrv selftest
package main

import (
	"bufio"
	"encoding/json"
	"fmt"
	"os"
	"reflect"
	"unsafe"

	ed "filippo.io/edwards25519"
	"filippo.io/edwards25519/field"
)

// ---------------------------------------------------------------------------
// raw views.  The offsets of the coordinates inside Point are looked up by
// reflection, so that a refactoring that adds or reorders unexported fields
// does not blind the driver; everything is re-checked by the self-test.

type elemRaw [5]uint64
type scalarRaw [4]uint64
type pointRaw struct{ x, y, z, t elemRaw }

var (
	pointOff  [4]uintptr
	pointSize = unsafe.Sizeof(ed.Point{})
	scalarOff uintptr
	layoutErr error
)

func init() {
	et := reflect.TypeOf(field.Element{})
	if et.Size() != 40 {
		layoutErr = fmt.Errorf("field.Element is %d bytes, want 40 (five 64-bit limbs)", et.Size())
		return
	}
	pt := reflect.TypeOf(ed.Point{})
	for i, name := range []string{"x", "y", "z", "t"} {
		f, ok := pt.FieldByName(name)
		if !ok || f.Type != et {
			layoutErr = fmt.Errorf("Point has no field.Element field %q", name)
			return
		}
		pointOff[i] = f.Offset
	}
	st := reflect.TypeOf(ed.Scalar{})
	found := false
	for i := 0; i < st.NumField(); i++ {
		if st.Field(i).Type.Size() == 32 {
			scalarOff = st.Field(i).Offset
			found = true
		}
	}
	if !found {
		layoutErr = fmt.Errorf("Scalar has no 32-byte field")
	}
}

func elemView(e *field.Element) *elemRaw { return (*elemRaw)(unsafe.Pointer(e)) }
func scalarView(s *ed.Scalar) *scalarRaw {
	return (*scalarRaw)(unsafe.Pointer(uintptr(unsafe.Pointer(s)) + scalarOff))
}
func pointCoord(p *ed.Point, i int) *elemRaw {
	return (*elemRaw)(unsafe.Pointer(uintptr(unsafe.Pointer(p)) + pointOff[i]))
}
func pointView(p *ed.Point) *pointRaw {
	return &pointRaw{*pointCoord(p, 0), *pointCoord(p, 1), *pointCoord(p, 2), *pointCoord(p, 3)}
}

// the whole memory of an object, hidden fields included (for the frame observation)
func rawBytes(p unsafe.Pointer, n uintptr) string {
	return string(unsafe.Slice((*byte)(p), int(n)))
}

func layoutOK() error {
	if layoutErr != nil {
		return layoutErr
	}
	// round trips through the public API
	var one field.Element
	one.One()
	if *elemView(&one) != (elemRaw{1, 0, 0, 0, 0}) {
		return fmt.Errorf("Element view: One() is %v", *elemView(&one))
	}
	b := make([]byte, 32)
	b[0] = 0x34
	b[7] = 0x12
	b[31] = 0x7f
	var e field.Element
	if _, err := e.SetBytes(b); err != nil {
		return err
	}
	v := elemView(&e)
	if v[0] != (0x1200000000000034&((1<<51)-1)) || v[4] != (uint64(0x7f)<<(248-204)) {
		return fmt.Errorf("Element view: limbs %v", *v)
	}
	// the Point view is cross-checked against ExtendedCoordinates when the library can produce a point at all
	// (a library that panics here is not a layout problem: the programs will show it)
	func() {
		defer func() { recover() }()
		g := ed.NewGeneratorPoint()
		X, Y, Z, T := g.ExtendedCoordinates()
		pv := pointView(g)
		if pv.x != *elemView(X) || pv.y != *elemView(Y) || pv.z != *elemView(Z) || pv.t != *elemView(T) {
			layoutErr = fmt.Errorf("Point view does not match ExtendedCoordinates")
		}
	}()
	if layoutErr != nil {
		return layoutErr
	}
	var z ed.Scalar
	if *scalarView(&z) != (scalarRaw{}) {
		return fmt.Errorf("Scalar view: zero value")
	}
	return nil
}

// ---------------------------------------------------------------------------
// program and trace formats

type Step struct {
	Op    string   `json:"op"`
	R     string   `json:"r,omitempty"`     // receiver register
	A     []string `json:"a,omitempty"`     // argument registers, in order
	SS    []string `json:"ss,omitempty"`    // scalars slice (multi-scalar)
	PS    []string `json:"ps,omitempty"`    // points slice (multi-scalar)
	O     []string `json:"o,omitempty"`     // registers that receive returned objects
	Bytes []int    `json:"bytes,omitempty"` // Buf.Set: contents
	Cap   int      `json:"cap,omitempty"`   // Buf.Set: capacity (>= len), extra bytes from Tail
	Tail  []int    `json:"tail,omitempty"`  // Buf.Set: bytes between len and cap
	Nil   bool     `json:"nil,omitempty"`   // Buf.Set: nil slice
	Limbs []string `json:"limbs,omitempty"` // Elem.Inject: five decimal uint64
	N     uint64   `json:"n,omitempty"`     // Mult32 multiplier / cond
	Shape string   `json:"shape,omitempty"` // multi-scalar slices: "" spare capacity with stale entries, "exact" cap == len, "nil" nil slices when empty (else exact), "niln" one nil and one empty slice
}

type Program struct {
	ID    int    `json:"id"`
	Note  string `json:"note,omitempty"`
	Steps []Step `json:"steps"`
}

type bufObj struct {
	Nil int   `json:"nil"`
	Len int   `json:"len"`
	Mem []int `json:"mem"` // the whole backing array up to cap
}

type ptObj struct {
	X []int `json:"x"`
	Y []int `json:"y"`
	Z []int `json:"z"`
	T []int `json:"t"`
}

type Event struct {
	Adopt  int                    `json:"adopt,omitempty"` // 1: already validated in an earlier program of this file (shared prelude); only its post-state is taken over
	Prog   int                    `json:"prog"`
	I      int                    `json:"i"`
	Op     string                 `json:"op"`
	Recv   string                 `json:"recv"`
	Args   []string               `json:"args"`
	SS     []string               `json:"ss"`
	PS     []string               `json:"ps"`
	Outs   []string               `json:"outs"`
	N      []int                  `json:"n"` // integer argument as little-endian bytes
	Pre    map[string]interface{} `json:"pre"`
	Post   map[string]interface{} `json:"post"`
	Ret    string                 `json:"ret"` // "recv", "nil", "none", "fresh", or a register name
	Err    int                    `json:"err"`
	Panic  int                    `json:"panic"`
	Out    int                    `json:"out"`    // integer result, -1 if none
	Delta  []string               `json:"delta"`  // uninvolved registers whose memory changed
	Slice  int                    `json:"slice"`  // 1 if an input slice of pointers was modified
	Digits []int                  `json:"digits"` // Shim.*: recoded digits
	Elems  [][]int                `json:"elems"`  // Shim.*: table entries (limb vectors)
}

// ---------------------------------------------------------------------------
// register file

const (
	nPoints  = 6
	nScalars = 6
	nElems   = 8
	nBufs    = 8
)

type regs struct {
	p [nPoints]*ed.Point
	s [nScalars]*ed.Scalar
	e [nElems]*field.Element
	b [nBufs][]byte
}

func newRegs() *regs {
	r := &regs{}
	for i := range r.p {
		r.p[i] = new(ed.Point)
	}
	for i := range r.s {
		r.s[i] = new(ed.Scalar)
	}
	for i := range r.e {
		r.e[i] = new(field.Element)
	}
	return r
}

func idx(name string, kind byte, n int) int {
	if len(name) < 2 || name[0] != kind {
		panic(fmt.Sprintf("edrv: bad register %q (want kind %c)", name, kind))
	}
	v := 0
	for _, c := range name[1:] {
		v = v*10 + int(c-'0')
	}
	if v >= n {
		panic(fmt.Sprintf("edrv: register %q out of range", name))
	}
	return v
}

func (r *regs) P(n string) *ed.Point       { return r.p[idx(n, 'p', nPoints)] }
func (r *regs) S(n string) *ed.Scalar      { return r.s[idx(n, 's', nScalars)] }
func (r *regs) E(n string) *field.Element  { return r.e[idx(n, 'e', nElems)] }
func (r *regs) B(n string) []byte          { return r.b[idx(n, 'b', nBufs)] }
func (r *regs) setB(n string, b []byte)    { r.b[idx(n, 'b', nBufs)] = b }
func (r *regs) setP(n string, p *ed.Point) { r.p[idx(n, 'p', nPoints)] = p }
func (r *regs) setS(n string, s *ed.Scalar) {
	r.s[idx(n, 's', nScalars)] = s
}
func (r *regs) setE(n string, e *field.Element) { r.e[idx(n, 'e', nElems)] = e }

func u64le(dst []int, v uint64) {
	for i := 0; i < 8; i++ {
		dst[i] = int(byte(v >> (8 * i)))
	}
}

func elemObj(e *field.Element) []int {
	v := elemView(e)
	out := make([]int, 40)
	for i := 0; i < 5; i++ {
		u64le(out[8*i:], v[i])
	}
	return out
}

func scalarObj(s *ed.Scalar) []int {
	v := scalarView(s)
	out := make([]int, 32)
	for i := 0; i < 4; i++ {
		u64le(out[8*i:], v[i])
	}
	return out
}

func pointObj(p *ed.Point) ptObj {
	v := pointView(p)
	f := func(l *elemRaw) []int {
		out := make([]int, 40)
		for i := 0; i < 5; i++ {
			u64le(out[8*i:], l[i])
		}
		return out
	}
	return ptObj{f(&v.x), f(&v.y), f(&v.z), f(&v.t)}
}

func bufferObj(b []byte) bufObj {
	if b == nil {
		return bufObj{Nil: 1, Len: 0, Mem: []int{}}
	}
	full := b[:cap(b)]
	m := make([]int, len(full))
	for i, x := range full {
		m[i] = int(x)
	}
	return bufObj{Nil: 0, Len: len(b), Mem: m}
}

func (r *regs) obj(name string) interface{} {
	switch name[0] {
	case 'p':
		return pointObj(r.P(name))
	case 's':
		return scalarObj(r.S(name))
	case 'e':
		return elemObj(r.E(name))
	case 'b':
		return bufferObj(r.B(name))
	}
	panic("edrv: bad register " + name)
}

// raw snapshot of every register, for the frame ("delta") observation
type snapshot struct {
	p [nPoints]string
	s [nScalars]string
	e [nElems]elemRaw
	b [nBufs]string
	h [nBufs]bool
}

func (r *regs) snap() *snapshot {
	s := &snapshot{}
	for i := range r.p {
		s.p[i] = rawBytes(unsafe.Pointer(r.p[i]), pointSize)
	}
	for i := range r.s {
		s.s[i] = rawBytes(unsafe.Pointer(r.s[i]), unsafe.Sizeof(ed.Scalar{}))
	}
	for i := range r.e {
		s.e[i] = *elemView(r.e[i])
	}
	for i := range r.b {
		if r.b[i] != nil {
			s.b[i] = string(r.b[i][:cap(r.b[i])])
			s.h[i] = true
		}
	}
	return s
}

func (r *regs) changed(a, b *snapshot) map[string]bool {
	m := map[string]bool{}
	for i := range r.p {
		if a.p[i] != b.p[i] {
			m[fmt.Sprintf("p%d", i)] = true
		}
	}
	for i := range r.s {
		if a.s[i] != b.s[i] {
			m[fmt.Sprintf("s%d", i)] = true
		}
	}
	for i := range r.e {
		if a.e[i] != b.e[i] {
			m[fmt.Sprintf("e%d", i)] = true
		}
	}
	for i := range r.b {
		if a.h[i] != b.h[i] || a.b[i] != b.b[i] {
			m[fmt.Sprintf("b%d", i)] = true
		}
	}
	return m
}

// ---------------------------------------------------------------------------
// execution of one step

type result struct {
	ret   string
	err   bool
	out   int
	slice bool
}

func retPoint(r *regs, recv string, got *ed.Point) string {
	if got == nil {
		return "nil"
	}
	if recv != "" && got == r.P(recv) {
		return "recv"
	}
	for i := range r.p {
		if r.p[i] == got {
			return fmt.Sprintf("p%d", i)
		}
	}
	return "fresh"
}

func retScalar(r *regs, recv string, got *ed.Scalar) string {
	if got == nil {
		return "nil"
	}
	if recv != "" && got == r.S(recv) {
		return "recv"
	}
	for i := range r.s {
		if r.s[i] == got {
			return fmt.Sprintf("s%d", i)
		}
	}
	return "fresh"
}

func retElem(r *regs, recv string, got *field.Element) string {
	if got == nil {
		return "nil"
	}
	if recv != "" && got == r.E(recv) {
		return "recv"
	}
	for i := range r.e {
		if r.e[i] == got {
			return fmt.Sprintf("e%d", i)
		}
	}
	// a pointer into some Point register would be a leak of internal state
	for i := range r.p {
		base := uintptr(unsafe.Pointer(r.p[i]))
		a := uintptr(unsafe.Pointer(got))
		if a >= base && a < base+pointSize {
			return fmt.Sprintf("inside-p%d", i)
		}
	}
	return "fresh"
}

// retBuf classifies a returned byte slice: does it share memory with a register buffer?
func retBuf(r *regs, got []byte) string {
	if got == nil {
		return "nil"
	}
	if cap(got) == 0 {
		return "fresh"
	}
	g0 := uintptr(unsafe.Pointer(&got[:1][0]))
	g1 := g0 + uintptr(cap(got))
	// a slice into the memory of a Point / Scalar / Element register is not a fresh value either
	inside := func(base unsafe.Pointer, size uintptr) bool {
		b0 := uintptr(base)
		return g0 < b0+size && b0 < g1
	}
	for i := range r.p {
		if inside(unsafe.Pointer(r.p[i]), pointSize) {
			return fmt.Sprintf("inside-p%d", i)
		}
	}
	for i := range r.s {
		if inside(unsafe.Pointer(r.s[i]), unsafe.Sizeof(ed.Scalar{})) {
			return fmt.Sprintf("inside-s%d", i)
		}
	}
	for i := range r.e {
		if inside(unsafe.Pointer(r.e[i]), 40) {
			return fmt.Sprintf("inside-e%d", i)
		}
	}
	for i := range r.b {
		b := r.b[i]
		if b == nil || cap(b) == 0 {
			continue
		}
		b0 := uintptr(unsafe.Pointer(&b[:1][0]))
		b1 := b0 + uintptr(cap(b))
		if g0 < b1 && b0 < g1 {
			return fmt.Sprintf("b%d", i)
		}
	}
	return "fresh"
}

func exec(r *regs, st *Step) (res result) {
	res.ret = "none"
	res.out = -1
	a := st.A
	switch st.Op {
	// ----- driver-only actions
	case "Buf.Set":
		if st.Nil {
			r.setB(st.R, nil)
			return
		}
		c := st.Cap
		if c < len(st.Bytes) {
			c = len(st.Bytes)
		}
		full := make([]byte, c)
		for i, x := range st.Bytes {
			full[i] = byte(x)
		}
		for i, x := range st.Tail {
			if len(st.Bytes)+i < c {
				full[len(st.Bytes)+i] = byte(x)
			}
		}
		r.setB(st.R, full[:len(st.Bytes)])
	case "Buf.Scribble":
		b := r.B(st.R)
		if b != nil {
			full := b[:cap(b)]
			for i := range full {
				full[i] ^= byte(0xa5 + i)
			}
		}
	case "Elem.Inject":
		var l elemRaw
		for i := 0; i < 5; i++ {
			fmt.Sscan(st.Limbs[i], &l[i])
		}
		*elemView(r.E(st.R)) = l

	// ----- Point
	case "NewIdentityPoint":
		p := ed.NewIdentityPoint()
		res.ret = retPoint(r, "", p)
		r.setP(st.O[0], p)
	case "NewGeneratorPoint":
		p := ed.NewGeneratorPoint()
		res.ret = retPoint(r, "", p)
		r.setP(st.O[0], p)
	case "Point.Set":
		res.ret = retPoint(r, st.R, r.P(st.R).Set(r.P(a[0])))
	case "Point.SetBytes":
		p, err := r.P(st.R).SetBytes(r.B(a[0]))
		res.ret, res.err = retPoint(r, st.R, p), err != nil
	case "Point.Bytes":
		out := r.P(st.R).Bytes()
		res.ret = retBuf(r, out)
		r.setB(st.O[0], out)
	case "Point.BytesMontgomery":
		out := r.P(st.R).BytesMontgomery()
		res.ret = retBuf(r, out)
		r.setB(st.O[0], out)
	case "Point.Add":
		res.ret = retPoint(r, st.R, r.P(st.R).Add(r.P(a[0]), r.P(a[1])))
	case "Point.Subtract":
		res.ret = retPoint(r, st.R, r.P(st.R).Subtract(r.P(a[0]), r.P(a[1])))
	case "Point.Negate":
		res.ret = retPoint(r, st.R, r.P(st.R).Negate(r.P(a[0])))
	case "Point.MultByCofactor":
		res.ret = retPoint(r, st.R, r.P(st.R).MultByCofactor(r.P(a[0])))
	case "Point.Equal":
		res.out = r.P(st.R).Equal(r.P(a[0]))
	case "Point.ScalarMult":
		res.ret = retPoint(r, st.R, r.P(st.R).ScalarMult(r.S(a[0]), r.P(a[1])))
	case "Point.ScalarBaseMult":
		res.ret = retPoint(r, st.R, r.P(st.R).ScalarBaseMult(r.S(a[0])))
	case "Point.VarTimeDoubleScalarBaseMult":
		res.ret = retPoint(r, st.R, r.P(st.R).VarTimeDoubleScalarBaseMult(r.S(a[0]), r.P(a[1]), r.S(a[2])))
	case "Point.MultiScalarMult", "Point.VarTimeMultiScalarMult":
		// the slices have spare capacity, and the backing arrays beyond their length hold stale (valid) pointers, as a
		// reused buffer would: nothing beyond len() may be looked at
		const spare = 4
		ssFull := make([]*ed.Scalar, len(st.SS)+spare)
		for i := range ssFull {
			ssFull[i] = r.s[i%nScalars]
		}
		ss := ssFull[:len(st.SS)]
		for i, n := range st.SS {
			ss[i] = r.S(n)
		}
		stale := ed.NewGeneratorPoint()
		psFull := make([]*ed.Point, len(st.PS)+spare)
		for i := range psFull {
			psFull[i] = stale
		}
		ps := psFull[:len(st.PS)]
		for i, n := range st.PS {
			ps[i] = r.P(n)
		}
		switch st.Shape {
		case "exact", "nil", "niln":
			ss = append(make([]*ed.Scalar, 0, len(ss)), ss...)
			ps = append(make([]*ed.Point, 0, len(ps)), ps...)
			if st.Shape != "exact" && len(ss) == 0 {
				ss = nil
			}
			if st.Shape == "nil" && len(ps) == 0 {
				ps = nil
			}
		}
		ss0 := append([]*ed.Scalar(nil), ss...)
		ps0 := append([]*ed.Point(nil), ps...)
		defer func() {
			for i := range ss {
				if ss[i] != ss0[i] {
					res.slice = true
				}
			}
			for i := range ps {
				if ps[i] != ps0[i] {
					res.slice = true
				}
			}
		}()
		var got *ed.Point
		if st.Op == "Point.MultiScalarMult" {
			got = r.P(st.R).MultiScalarMult(ss, ps)
		} else {
			got = r.P(st.R).VarTimeMultiScalarMult(ss, ps)
		}
		res.ret = retPoint(r, st.R, got)
	case "Point.ExtendedCoordinates":
		X, Y, Z, T := r.P(st.R).ExtendedCoordinates()
		res.ret = retElem(r, "", X)
		for _, q := range []*field.Element{Y, Z, T} {
			if c := retElem(r, "", q); c != "fresh" {
				res.ret = c
			}
		}
		if X == Y || X == Z || X == T || Y == Z || Y == T || Z == T {
			res.ret = "shared"
		}
		r.setE(st.O[0], X)
		r.setE(st.O[1], Y)
		r.setE(st.O[2], Z)
		r.setE(st.O[3], T)
	case "Point.SetExtendedCoordinates":
		p, err := r.P(st.R).SetExtendedCoordinates(r.E(a[0]), r.E(a[1]), r.E(a[2]), r.E(a[3]))
		res.ret, res.err = retPoint(r, st.R, p), err != nil

	// ----- Scalar
	case "NewScalar":
		s := ed.NewScalar()
		res.ret = retScalar(r, "", s)
		r.setS(st.O[0], s)
	case "Scalar.Set":
		res.ret = retScalar(r, st.R, r.S(st.R).Set(r.S(a[0])))
	case "Scalar.Add":
		res.ret = retScalar(r, st.R, r.S(st.R).Add(r.S(a[0]), r.S(a[1])))
	case "Scalar.Subtract":
		res.ret = retScalar(r, st.R, r.S(st.R).Subtract(r.S(a[0]), r.S(a[1])))
	case "Scalar.Negate":
		res.ret = retScalar(r, st.R, r.S(st.R).Negate(r.S(a[0])))
	case "Scalar.Multiply":
		res.ret = retScalar(r, st.R, r.S(st.R).Multiply(r.S(a[0]), r.S(a[1])))
	case "Scalar.MultiplyAdd":
		res.ret = retScalar(r, st.R, r.S(st.R).MultiplyAdd(r.S(a[0]), r.S(a[1]), r.S(a[2])))
	case "Scalar.Invert":
		res.ret = retScalar(r, st.R, r.S(st.R).Invert(r.S(a[0])))
	case "Scalar.Equal":
		res.out = r.S(st.R).Equal(r.S(a[0]))
	case "Scalar.Bytes":
		out := r.S(st.R).Bytes()
		res.ret = retBuf(r, out)
		r.setB(st.O[0], out)
	case "Scalar.SetCanonicalBytes":
		s, err := r.S(st.R).SetCanonicalBytes(r.B(a[0]))
		res.ret, res.err = retScalar(r, st.R, s), err != nil
	case "Scalar.SetUniformBytes":
		s, err := r.S(st.R).SetUniformBytes(r.B(a[0]))
		res.ret, res.err = retScalar(r, st.R, s), err != nil
	case "Scalar.SetBytesWithClamping":
		s, err := r.S(st.R).SetBytesWithClamping(r.B(a[0]))
		res.ret, res.err = retScalar(r, st.R, s), err != nil

	// ----- field.Element
	case "Elem.Zero":
		res.ret = retElem(r, st.R, r.E(st.R).Zero())
	case "Elem.One":
		res.ret = retElem(r, st.R, r.E(st.R).One())
	case "Elem.Set":
		res.ret = retElem(r, st.R, r.E(st.R).Set(r.E(a[0])))
	case "Elem.Add":
		res.ret = retElem(r, st.R, r.E(st.R).Add(r.E(a[0]), r.E(a[1])))
	case "Elem.Subtract":
		res.ret = retElem(r, st.R, r.E(st.R).Subtract(r.E(a[0]), r.E(a[1])))
	case "Elem.Negate":
		res.ret = retElem(r, st.R, r.E(st.R).Negate(r.E(a[0])))
	case "Elem.Multiply":
		res.ret = retElem(r, st.R, r.E(st.R).Multiply(r.E(a[0]), r.E(a[1])))
	case "Elem.Square":
		res.ret = retElem(r, st.R, r.E(st.R).Square(r.E(a[0])))
	case "Elem.Mult32":
		res.ret = retElem(r, st.R, r.E(st.R).Mult32(r.E(a[0]), uint32(st.N)))
	case "Elem.Invert":
		res.ret = retElem(r, st.R, r.E(st.R).Invert(r.E(a[0])))
	case "Elem.Pow22523":
		res.ret = retElem(r, st.R, r.E(st.R).Pow22523(r.E(a[0])))
	case "Elem.SqrtRatio":
		e, ws := r.E(st.R).SqrtRatio(r.E(a[0]), r.E(a[1]))
		res.ret, res.out = retElem(r, st.R, e), ws
	case "Elem.Absolute":
		res.ret = retElem(r, st.R, r.E(st.R).Absolute(r.E(a[0])))
	case "Elem.Select":
		res.ret = retElem(r, st.R, r.E(st.R).Select(r.E(a[0]), r.E(a[1]), int(st.N)))
	case "Elem.Swap":
		r.E(st.R).Swap(r.E(a[0]), int(st.N))
	case "Elem.Equal":
		res.out = r.E(st.R).Equal(r.E(a[0]))
	case "Elem.IsNegative":
		res.out = r.E(st.R).IsNegative()
	case "Elem.Bytes":
		out := r.E(st.R).Bytes()
		res.ret = retBuf(r, out)
		r.setB(st.O[0], out)
	case "Elem.SetBytes":
		e, err := r.E(st.R).SetBytes(r.B(a[0]))
		res.ret, res.err = retElem(r, st.R, e), err != nil
	case "Elem.SetWideBytes":
		e, err := r.E(st.R).SetWideBytes(r.B(a[0]))
		res.ret, res.err = retElem(r, st.R, e), err != nil
	default:
		panic("edrv: unknown op " + st.Op)
	}
	return
}

func involved(st *Step) []string {
	seen := map[string]bool{}
	var out []string
	add := func(n string) {
		if n != "" && !seen[n] {
			seen[n] = true
			out = append(out, n)
		}
	}
	add(st.R)
	for _, n := range st.A {
		add(n)
	}
	for _, n := range st.SS {
		add(n)
	}
	for _, n := range st.PS {
		add(n)
	}
	for _, n := range st.O {
		add(n)
	}
	return out
}

func nz(s []string) []string {
	if s == nil {
		return []string{}
	}
	return s
}

func runStep(r *regs, prog, i int, st *Step) (ev Event) {
	inv := involved(st)
	ev = Event{Prog: prog, I: i, Op: st.Op, Recv: st.R, Args: nz(st.A), SS: nz(st.SS), PS: nz(st.PS), Outs: nz(st.O),
		Pre: map[string]interface{}{}, Post: map[string]interface{}{}, Ret: "none", Out: -1, Delta: []string{}, Digits: []int{}, Elems: [][]int{}}
	ev.N = make([]int, 8)
	u64le(ev.N, st.N)
	for _, n := range inv {
		ev.Pre[n] = r.obj(n)
	}
	before := r.snap()
	var res result
	func() {
		defer func() {
			if x := recover(); x != nil {
				if s, ok := x.(string); ok && len(s) > 5 && s[:5] == "edrv:" {
					panic(x) // a bug of the driver or of the program, not of the library
				}
				ev.Panic = 1
			}
		}()
		if len(st.Op) > 5 && st.Op[:5] == "Shim." {
			if !execShim(r, st, &ev) {
				panic("edrv: shim operation " + st.Op + " not available in this build")
			}
			res = result{ret: "none", out: -1}
		} else {
			res = exec(r, st)
		}
	}()
	after := r.snap()
	if ev.Panic == 0 {
		ev.Ret = res.ret
		ev.Out = res.out
		if res.err {
			ev.Err = 1
		}
	}
	if res.slice {
		ev.Slice = 1
	}
	for _, n := range inv {
		ev.Post[n] = r.obj(n)
	}
	ch := r.changed(before, after)
	isInv := map[string]bool{}
	for _, n := range inv {
		isInv[n] = true
	}
	for n := range ch {
		if !isInv[n] {
			ev.Delta = append(ev.Delta, n)
		}
	}
	return
}

func run(progFile, traceFile string) error {
	data, err := os.ReadFile(progFile)
	if err != nil {
		return err
	}
	var progs []Program
	if err := json.Unmarshal(data, &progs); err != nil {
		return err
	}
	f, err := os.Create(traceFile)
	if err != nil {
		return err
	}
	defer f.Close()
	w := bufio.NewWriterSize(f, 1<<20)
	defer w.Flush()
	enc := json.NewEncoder(w)
	nev := 0
	for _, p := range progs {
		r := newRegs()
		// every program starts from a fresh register file: zero-value points, zero scalars, zero elements, nil buffers
		if err := enc.Encode(map[string]interface{}{"prog": p.ID, "i": 0, "op": "Reset"}); err != nil {
			return err
		}
		for i := range p.Steps {
			ev := runStep(r, p.ID, i+1, &p.Steps[i])
			if err := enc.Encode(&ev); err != nil {
				return err
			}
			nev++
		}
	}
	fmt.Fprintf(os.Stderr, "edrv: %d programs, %d events\n", len(progs), nev)
	return nil
}

func main() {
	// VERIF_COLD=1: the programs must be the first thing that touches the library in this process (not even the layout
	// self-test, which decodes the generator, runs before them); the self-test then runs afterwards
	cold := os.Getenv("VERIF_COLD") == "1"
	checkLayout := func() {
		if err := layoutOK(); err != nil {
			fmt.Fprintln(os.Stderr, "edrv: layout self-test failed:", err)
			os.Exit(3)
		}
	}
	if !cold {
		checkLayout()
	} else {
		defer checkLayout()
	}
	if len(os.Args) >= 2 && os.Args[1] == "selftest" {
		fmt.Println("edrv: layout ok; shim:", haveShim)
		return
	}
	if len(os.Args) == 4 && os.Args[1] == "run" {
		if err := run(os.Args[2], os.Args[3]); err != nil {
			fmt.Fprintln(os.Stderr, "edrv:", err)
			os.Exit(2)
		}
		return // (a cold run checks the layout now, in the deferred call)
	}
	if len(os.Args) == 4 && os.Args[1] == "ct" {
		if err := runCT(os.Args[2], os.Args[3]); err != nil {
			fmt.Fprintln(os.Stderr, "edrv:", err)
			os.Exit(2)
		}
		return
	}
	if len(os.Args) == 5 && os.Args[1] == "conc" {
		if err := runConc(os.Args[2], os.Args[3], os.Args[4]); err != nil {
			fmt.Fprintln(os.Stderr, "edrv:", err)
			os.Exit(2)
		}
		return
	}
	fmt.Fprintln(os.Stderr, "usage: edrv run <programs.json> <trace.ndjson> | edrv selftest")
	os.Exit(2)
}
