//go:build !verifshim

package main

const haveShim = false

func execShim(r *regs, st *Step, ev *Event) bool { return false }
