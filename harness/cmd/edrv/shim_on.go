//go:build verifshim

package main

import (
	ed "filippo.io/edwards25519"
	"filippo.io/edwards25519/field"
)

const haveShim = true

func elemsObj(es []field.Element) [][]int {
	out := make([][]int, len(es))
	for i := range es {
		out[i] = elemObj(&es[i])
	}
	return out
}

func execShim(r *regs, st *Step, ev *Event) bool {
	switch st.Op {
	case "Shim.Radix16":
		d := ed.VerifSignedRadix16(r.S(st.A[0]))
		for _, x := range d {
			ev.Digits = append(ev.Digits, int(x))
		}
	case "Shim.NAF":
		d := ed.VerifNonAdjacentForm(r.S(st.A[0]), uint(st.N))
		for _, x := range d {
			ev.Digits = append(ev.Digits, int(x))
		}
	case "Shim.ProjTable":
		t := ed.VerifProjTable(r.P(st.A[0]))
		for i := range t {
			ev.Elems = append(ev.Elems, elemsObj(t[i][:])...)
		}
	case "Shim.ProjSelect":
		c := ed.VerifProjSelect(r.P(st.A[0]), int8(int64(st.N)))
		ev.Elems = elemsObj(c[:])
	case "Shim.BaseTable":
		c := ed.VerifBasepointTable(int(st.N)/8, int(st.N)%8)
		ev.Elems = elemsObj(c[:])
	case "Shim.BaseNafTable":
		c := ed.VerifBasepointNafTable(int(st.N))
		ev.Elems = elemsObj(c[:])
	default:
		return false
	}
	return true
}
