// ctinstr generates instrumented copies of the non-test Go sources of the
// library's working tree (typed AST, golang.org/x/tools/go/packages) and an
// overlay file for `go build -overlay`.  Nothing is written under the tree.
//
// Every decision and every data-dependent address or variable-latency operand
// becomes an observation (see hooks/verifrt):
//
//	if / for conditions, && and || operands      -> verifrt.B(site, cond)
//	non-constant index and slice bounds           -> verifrt.I(site, i)
//	non-constant shift counts, / and % operands   -> verifrt.I(site, n)
//	range loop iterations                         -> verifrt.L(site)
//	switch / type-switch clause taken             -> verifrt.K(site, k)
//	make / append / copy lengths                  -> verifrt.I / verifrt.Len
//	arguments of calls that leave the library and are not on the
//	constant-time allow-list                      -> verifrt.A(site, arg)
//	function entry (and exit with -exit)          -> verifrt.Enter / Exit
//
// usage: ctinstr -repo <dir> -out <dir> [-tags purego] [-declassify f1,f2] [-exit]
package main

import (
	"bytes"
	"encoding/json"
	"flag"
	"fmt"
	"go/ast"
	"go/format"
	"go/token"
	"go/types"
	"os"
	"path/filepath"
	"strings"

	"golang.org/x/tools/go/ast/astutil"
	"golang.org/x/tools/go/packages"
)

type site struct {
	ID   int    `json:"id"`
	Kind string `json:"kind"`
	File string `json:"file"`
	Line int    `json:"line"`
	Col  int    `json:"col"`
	Func string `json:"func"`
}

var (
	sites    []site
	fset     *token.FileSet
	allow    = map[string]bool{"crypto/subtle": true, "math/bits": true, "encoding/binary": true, "errors": true, "sync": true, "unsafe": true}
	rtImport = ""
)

func newSite(kind string, pos token.Pos, fn string) *ast.BasicLit {
	p := fset.Position(pos)
	id := len(sites) + 1
	sites = append(sites, site{id, kind, p.Filename, p.Line, p.Column, fn})
	return &ast.BasicLit{Kind: token.INT, Value: fmt.Sprint(id)}
}

func rtCall(name string, args ...ast.Expr) *ast.CallExpr {
	return &ast.CallExpr{Fun: &ast.SelectorExpr{X: ast.NewIdent("verifrt"), Sel: ast.NewIdent(name)}, Args: args}
}

type instr struct {
	info       *types.Info
	pkgs       map[string]bool // import paths of the instrumented packages
	declass    map[string]bool
	withExit   bool
	curFunc    string
	skip       bool
	skipExprs  map[ast.Expr]bool
	usedInFile bool
}

func (in *instr) isConst(e ast.Expr) bool {
	tv, ok := in.info.Types[e]
	return ok && tv.Value != nil
}

func (in *instr) isInteger(e ast.Expr) bool {
	tv, ok := in.info.Types[e]
	if !ok || tv.Type == nil {
		return false
	}
	b, ok := tv.Type.Underlying().(*types.Basic)
	return ok && b.Info()&types.IsInteger != 0 && b.Info()&types.IsUntyped == 0
}

func (in *instr) isBool(e ast.Expr) bool {
	tv, ok := in.info.Types[e]
	if !ok || tv.Type == nil {
		return false
	}
	b, ok := tv.Type.Underlying().(*types.Basic)
	return ok && b.Info()&types.IsBoolean != 0
}

func (in *instr) wrapI(kind string, e ast.Expr) ast.Expr {
	if e == nil || in.isConst(e) || !in.isInteger(e) {
		return e
	}
	in.usedInFile = true
	return rtCall("I", newSite(kind, e.Pos(), in.curFunc), e)
}

func (in *instr) wrapB(kind string, e ast.Expr) ast.Expr {
	if e == nil || in.isConst(e) || !in.isBool(e) {
		return e
	}
	// operands of && / || are wrapped individually when visited; wrap the whole condition as well
	in.usedInFile = true
	return rtCall("B", newSite(kind, e.Pos(), in.curFunc), e)
}

func (in *instr) calleePkg(call *ast.CallExpr) (pkg string, name string, builtin bool) {
	var id *ast.Ident
	switch f := call.Fun.(type) {
	case *ast.Ident:
		id = f
	case *ast.SelectorExpr:
		id = f.Sel
	default:
		return "", "", false
	}
	obj := in.info.Uses[id]
	switch o := obj.(type) {
	case *types.Builtin:
		return "", o.Name(), true
	case *types.Func:
		if o.Pkg() != nil {
			return o.Pkg().Path(), o.Name(), false
		}
	}
	return "", "", false
}

func stmtList(sts ...ast.Stmt) []ast.Stmt { return sts }

func (in *instr) pre(c *astutil.Cursor) bool {
	switch n := c.Node().(type) {
	case *ast.FuncDecl:
		name := n.Name.Name
		if n.Recv != nil && len(n.Recv.List) > 0 {
			var b bytes.Buffer
			format.Node(&b, fset, n.Recv.List[0].Type)
			name = "(" + b.String() + ")." + name
		}
		in.curFunc = name
		in.skip = in.declass[n.Name.Name]
	}
	return true
}

func (in *instr) post(c *astutil.Cursor) bool {
	switch n := c.Node().(type) {
	case *ast.FuncDecl:
		if n.Body != nil {
			in.usedInFile = true
			fid := newSite("func", n.Pos(), in.curFunc)
			pro := []ast.Stmt{&ast.ExprStmt{X: rtCall("Enter", fid)}}
			if in.withExit {
				pro = append(pro, &ast.DeferStmt{Call: rtCall("Exit", &ast.BasicLit{Kind: token.INT, Value: fid.Value})})
			}
			n.Body.List = append(pro, n.Body.List...)
		}
		in.skip = false
		return true
	case *ast.FuncLit:
		if in.skip {
			return true
		}
		in.usedInFile = true
		fid := newSite("funclit", n.Pos(), in.curFunc+".func")
		pro := []ast.Stmt{&ast.ExprStmt{X: rtCall("Enter", fid)}}
		if in.withExit {
			pro = append(pro, &ast.DeferStmt{Call: rtCall("Exit", &ast.BasicLit{Kind: token.INT, Value: fid.Value})})
		}
		n.Body.List = append(pro, n.Body.List...)
		return true
	}
	if in.skip {
		return true
	}
	switch n := c.Node().(type) {
	case *ast.IfStmt:
		n.Cond = in.wrapB("if", n.Cond)
	case *ast.ForStmt:
		if n.Cond != nil {
			n.Cond = in.wrapB("for", n.Cond)
		}
	case *ast.RangeStmt:
		in.usedInFile = true
		n.Body.List = append(stmtList(&ast.ExprStmt{X: rtCall("L", newSite("range", n.Pos(), in.curFunc))}), n.Body.List...)
	case *ast.SwitchStmt:
		s := newSite("switch", n.Pos(), in.curFunc)
		for k, cl := range n.Body.List {
			cc := cl.(*ast.CaseClause)
			in.usedInFile = true
			cc.Body = append(stmtList(&ast.ExprStmt{X: rtCall("K", &ast.BasicLit{Kind: token.INT, Value: s.Value}, &ast.BasicLit{Kind: token.INT, Value: fmt.Sprint(k)})}), cc.Body...)
		}
	case *ast.TypeSwitchStmt:
		s := newSite("typeswitch", n.Pos(), in.curFunc)
		for k, cl := range n.Body.List {
			cc := cl.(*ast.CaseClause)
			in.usedInFile = true
			cc.Body = append(stmtList(&ast.ExprStmt{X: rtCall("K", &ast.BasicLit{Kind: token.INT, Value: s.Value}, &ast.BasicLit{Kind: token.INT, Value: fmt.Sprint(k)})}), cc.Body...)
		}
	case *ast.BinaryExpr:
		switch n.Op {
		case token.LAND, token.LOR:
			n.X = in.wrapB("logic", n.X)
			n.Y = in.wrapB("logic", n.Y)
		case token.SHL, token.SHR:
			n.Y = in.wrapI("shift", n.Y)
		case token.QUO, token.REM:
			if !in.isConst(n) {
				n.X = in.wrapI("div", n.X)
				n.Y = in.wrapI("div", n.Y)
			}
		}
	case *ast.AssignStmt:
		if (n.Tok == token.SHL_ASSIGN || n.Tok == token.SHR_ASSIGN) && len(n.Rhs) == 1 {
			n.Rhs[0] = in.wrapI("shift", n.Rhs[0])
		}
		if (n.Tok == token.QUO_ASSIGN || n.Tok == token.REM_ASSIGN) && len(n.Rhs) == 1 {
			n.Rhs[0] = in.wrapI("div", n.Rhs[0])
		}
	case *ast.IndexExpr:
		if tv, ok := in.info.Types[n.X]; ok && !tv.IsType() {
			if _, isMap := tv.Type.Underlying().(*types.Map); !isMap {
				if _, isSig := tv.Type.Underlying().(*types.Signature); !isSig {
					n.Index = in.wrapI("index", n.Index)
				}
			}
		}
	case *ast.SliceExpr:
		n.Low = in.wrapI("slice", n.Low)
		n.High = in.wrapI("slice", n.High)
		n.Max = in.wrapI("slice", n.Max)
	case *ast.CallExpr:
		pkg, name, builtin := in.calleePkg(n)
		if builtin {
			switch name {
			case "make":
				for i := 1; i < len(n.Args); i++ {
					n.Args[i] = in.wrapI("make", n.Args[i])
				}
			case "copy", "append":
				for i, a := range n.Args {
					if n.Ellipsis != token.NoPos && i == len(n.Args)-1 || name == "copy" || i == 0 {
						if tv, ok := in.info.Types[a]; ok {
							if _, isSlice := tv.Type.Underlying().(*types.Slice); isSlice {
								in.usedInFile = true
								n.Args[i] = rtCall("Len", newSite(name, a.Pos(), in.curFunc), a)
							}
						}
					}
				}
			}
		} else if pkg != "" && !in.pkgs[pkg] && !allow[pkg] && !strings.HasSuffix(pkg, "/verifrt") {
			for i, a := range n.Args {
				if in.isConst(a) {
					continue
				}
				tv, ok := in.info.Types[a]
				if !ok || tv.Type == nil {
					continue
				}
				rec := false
				switch t := tv.Type.Underlying().(type) {
				case *types.Basic:
					rec = t.Info()&(types.IsInteger|types.IsString) != 0 && t.Info()&types.IsUntyped == 0
				case *types.Slice:
					if b, ok := t.Elem().Underlying().(*types.Basic); ok && b.Kind() == types.Uint8 {
						rec = true
					}
				}
				if rec {
					in.usedInFile = true
					n.Args[i] = rtCall("A", newSite("extcall:"+pkg+"."+name, a.Pos(), in.curFunc), a)
				}
			}
		}
	}
	return true
}

func main() {
	repo := flag.String("repo", "/repo", "working tree of the library")
	out := flag.String("out", "", "output directory")
	tags := flag.String("tags", "", "build tags")
	declass := flag.String("declassify", "checkInitialized", "functions whose bodies are not instrumented (entry is still recorded)")
	withExit := flag.Bool("exit", false, "also record function exits (deferred)")
	rtsrc := flag.String("rt", "", "path of hooks/verifrt/rt.go")
	flag.Parse()
	if *out == "" || *rtsrc == "" {
		fmt.Fprintln(os.Stderr, "ctinstr: -out and -rt are required")
		os.Exit(2)
	}
	absRepo, _ := filepath.Abs(*repo)
	fset = token.NewFileSet()
	cfg := &packages.Config{
		Mode: packages.NeedName | packages.NeedFiles | packages.NeedSyntax | packages.NeedTypes | packages.NeedTypesInfo | packages.NeedImports | packages.NeedCompiledGoFiles,
		Dir:  absRepo,
		Fset: fset,
		Env:  append(os.Environ(), "GOFLAGS=-mod=mod", "GOPROXY=off", "GOSUMDB=off", "GOTOOLCHAIN=local"),
	}
	if *tags != "" {
		cfg.BuildFlags = []string{"-tags", *tags}
	}
	pkgs, err := packages.Load(cfg, "./...")
	if err != nil {
		fmt.Fprintln(os.Stderr, "ctinstr: load:", err)
		os.Exit(2)
	}
	if packages.PrintErrors(pkgs) > 0 {
		os.Exit(2)
	}
	pkgset := map[string]bool{}
	modpath := ""
	for _, p := range pkgs {
		pkgset[p.PkgPath] = true
		if modpath == "" || len(p.PkgPath) < len(modpath) {
			modpath = p.PkgPath
		}
	}
	rtImport = modpath + "/verifrt"
	dc := map[string]bool{}
	for _, f := range strings.Split(*declass, ",") {
		if f != "" {
			dc[f] = true
		}
	}
	overlay := map[string]string{}
	os.MkdirAll(filepath.Join(*out, "files"), 0o755)
	nfiles := 0
	for _, p := range pkgs {
		if strings.HasSuffix(p.PkgPath, "/verifrt") {
			continue
		}
		for i, f := range p.Syntax {
			fname := p.CompiledGoFiles[i]
			if !strings.HasPrefix(fname, absRepo) || strings.HasSuffix(fname, "_test.go") {
				continue
			}
			in := &instr{info: p.TypesInfo, pkgs: pkgset, declass: dc, withExit: *withExit}
			astutil.Apply(f, in.pre, in.post)
			if !in.usedInFile {
				continue
			}
			astutil.AddImport(fset, f, rtImport)
			var buf bytes.Buffer
			if err := format.Node(&buf, fset, f); err != nil {
				fmt.Fprintln(os.Stderr, "ctinstr: print", fname, err)
				os.Exit(2)
			}
			rel, _ := filepath.Rel(absRepo, fname)
			dst := filepath.Join(*out, "files", strings.ReplaceAll(rel, string(filepath.Separator), "__"))
			if err := os.WriteFile(dst, buf.Bytes(), 0o644); err != nil {
				fmt.Fprintln(os.Stderr, err)
				os.Exit(2)
			}
			overlay[fname] = dst
			nfiles++
		}
	}
	// the runtime package, added to the module by the overlay (with the verif tag stripped: it is only ever
	// compiled through this overlay)
	rt, err := os.ReadFile(*rtsrc)
	if err != nil {
		fmt.Fprintln(os.Stderr, err)
		os.Exit(2)
	}
	rtdst := filepath.Join(*out, "verifrt_rt.go")
	os.WriteFile(rtdst, rt, 0o644)
	overlay[filepath.Join(absRepo, "verifrt", "rt.go")] = rtdst
	ov, _ := json.MarshalIndent(map[string]interface{}{"Replace": overlay}, "", " ")
	os.WriteFile(filepath.Join(*out, "overlay.json"), ov, 0o644)
	sj, _ := json.Marshal(map[string]interface{}{"sites": sites, "rt_import": rtImport, "allow": allow, "declassified": dc})
	os.WriteFile(filepath.Join(*out, "sites.json"), sj, 0o644)
	fmt.Printf("ctinstr: %d files instrumented, %d sites, runtime at %s\n", nfiles, len(sites), rtImport)
}
