// fiatx extracts the straight-line word programs of scalar_fiat.go (the fiat-crypto generated Montgomery arithmetic of
// the scalar field) as data: one instruction list per function, in a small SSA-like form that spec/Fiat.tla executes
// (concretely and over intervals).  Anything outside the subset marks the function "unsupported" with the reason; the
// checks then degrade (no word-level model for that function), they never guess.
package main

import (
	"encoding/json"
	"fmt"
	"go/ast"
	"go/parser"
	"go/token"
	"math/big"
	"os"
	"strings"
)

type E map[string]interface{}

type Fn struct {
	Name        string   `json:"name"`
	Params      []string `json:"params"`
	ParamKinds  []string `json:"param_kinds"` // "out", "words4", "bytes32", "u1", "u64", "outword"
	Ins         []E      `json:"ins"`
	Unsupported string   `json:"unsupported,omitempty"`
	Reduced     []bool   `json:"reduced"` // per parameter: documented precondition "0 <= eval argN < m"
}

type bail struct{ why string }

func fail(format string, a ...interface{}) { panic(bail{fmt.Sprintf(format, a...)}) }

func lit(s string) E {
	v, ok := new(big.Int).SetString(strings.ReplaceAll(s, "_", ""), 0)
	if !ok {
		fail("literal %q", s)
	}
	return E{"k": "lit", "v": v.String()}
}

func expr(x ast.Expr) E {
	switch e := x.(type) {
	case *ast.ParenExpr:
		return expr(e.X)
	case *ast.Ident:
		return E{"k": "var", "n": e.Name}
	case *ast.BasicLit:
		if e.Kind != token.INT {
			fail("literal kind")
		}
		return lit(e.Value)
	case *ast.IndexExpr:
		id, ok := e.X.(*ast.Ident)
		ix, ok2 := e.Index.(*ast.BasicLit)
		if !ok || !ok2 {
			fail("index expression")
		}
		return E{"k": "arg", "a": id.Name, "i": lit(ix.Value)["v"]}
	case *ast.StarExpr:
		id, ok := e.X.(*ast.Ident)
		if !ok {
			fail("deref")
		}
		return E{"k": "var", "n": id.Name}
	case *ast.UnaryExpr:
		if e.Op == token.XOR {
			return E{"k": "not", "e": expr(e.X)}
		}
		fail("unary %s", e.Op)
	case *ast.BinaryExpr:
		ops := map[token.Token]string{token.ADD: "+", token.AND: "&", token.OR: "|", token.SHL: "<<", token.SHR: ">>", token.MUL: "*", token.SUB: "-", token.XOR: "^"}
		o, ok := ops[e.Op]
		if !ok {
			fail("binary %s", e.Op)
		}
		return E{"k": "bin", "o": o, "l": expr(e.X), "r": expr(e.Y)}
	case *ast.CallExpr:
		id, ok := e.Fun.(*ast.Ident)
		if !ok || len(e.Args) != 1 {
			fail("call in expression")
		}
		switch {
		case id.Name == "uint64":
			return E{"k": "u64", "e": expr(e.Args[0])}
		case id.Name == "uint8":
			return E{"k": "u8", "e": expr(e.Args[0])}
		case strings.HasSuffix(id.Name, "Uint1"):
			return E{"k": "u1", "e": expr(e.Args[0])}
		case strings.HasSuffix(id.Name, "Int1"):
			fail("signed helper %s", id.Name)
		}
		fail("call %s", id.Name)
	}
	fail("expression %T", x)
	return nil
}

func name(x ast.Expr) string {
	switch e := x.(type) {
	case *ast.Ident:
		return e.Name
	case *ast.StarExpr:
		return name(e.X)
	case *ast.UnaryExpr:
		if e.Op == token.AND {
			return name(e.X)
		}
	}
	fail("destination %T", x)
	return ""
}

func stmt(s ast.Stmt, out *[]E) {
	switch st := s.(type) {
	case *ast.DeclStmt:
		gd, ok := st.Decl.(*ast.GenDecl)
		if !ok || gd.Tok != token.VAR {
			fail("declaration")
		}
		for _, sp := range gd.Specs {
			if len(sp.(*ast.ValueSpec).Values) != 0 {
				fail("initialised var")
			}
		}
	case *ast.AssignStmt:
		if len(st.Lhs) == 2 && len(st.Rhs) == 1 {
			call, ok := st.Rhs[0].(*ast.CallExpr)
			if !ok {
				fail("two-valued assignment")
			}
			sel, ok := call.Fun.(*ast.SelectorExpr)
			if !ok || name(sel.X) != "bits" {
				fail("two-valued call")
			}
			a, b := name(st.Lhs[0]), name(st.Lhs[1])
			switch sel.Sel.Name {
			case "Mul64":
				*out = append(*out, E{"op": "mul", "hi": a, "lo": b, "a": expr(call.Args[0]), "b": expr(call.Args[1])})
			case "Add64":
				*out = append(*out, E{"op": "add", "s": a, "c": b, "a": expr(call.Args[0]), "b": expr(call.Args[1]), "ci": expr(call.Args[2])})
			case "Sub64":
				*out = append(*out, E{"op": "sub", "s": a, "c": b, "a": expr(call.Args[0]), "b": expr(call.Args[1]), "ci": expr(call.Args[2])})
			default:
				fail("bits.%s", sel.Sel.Name)
			}
			return
		}
		if len(st.Lhs) != 1 || len(st.Rhs) != 1 {
			fail("assignment arity")
		}
		switch st.Tok {
		case token.DEFINE, token.ASSIGN:
			if ix, ok := st.Lhs[0].(*ast.IndexExpr); ok {
				*out = append(*out, E{"op": "out", "i": lit(ix.Index.(*ast.BasicLit).Value)["v"], "e": expr(st.Rhs[0])})
			} else if _, ok := st.Lhs[0].(*ast.StarExpr); ok {
				*out = append(*out, E{"op": "out", "i": "0", "e": expr(st.Rhs[0])})
			} else {
				*out = append(*out, E{"op": "set", "d": name(st.Lhs[0]), "e": expr(st.Rhs[0])})
			}
		case token.ADD_ASSIGN:
			d := name(st.Lhs[0])
			*out = append(*out, E{"op": "set", "d": d, "e": E{"k": "bin", "o": "+", "l": E{"k": "var", "n": d}, "r": expr(st.Rhs[0])}})
		default:
			fail("assignment %s", st.Tok)
		}
	case *ast.ExprStmt:
		call, ok := st.X.(*ast.CallExpr)
		if !ok {
			fail("expression statement")
		}
		id, ok := call.Fun.(*ast.Ident)
		if !ok || !strings.HasSuffix(id.Name, "CmovznzU64") || len(call.Args) != 4 {
			fail("call statement")
		}
		*out = append(*out, E{"op": "cmov", "d": name(call.Args[0]), "c": expr(call.Args[1]), "z": expr(call.Args[2]), "nz": expr(call.Args[3])})
	default:
		fail("statement %T", s)
	}
}

func typeKind(t ast.Expr) string {
	switch e := t.(type) {
	case *ast.StarExpr:
		switch x := e.X.(type) {
		case *ast.Ident:
			if x.Name == "uint64" {
				return "outword"
			}
			return "words4"
		case *ast.ArrayType:
			if id, ok := x.Elt.(*ast.Ident); ok && id.Name == "uint8" {
				return "bytes32"
			}
			return "words4"
		}
	case *ast.Ident:
		if e.Name == "uint64" {
			return "u64"
		}
		return "u1"
	}
	return "?"
}

func main() {
	src := os.Args[1]
	fset := token.NewFileSet()
	f, err := parser.ParseFile(fset, src, nil, parser.ParseComments)
	if err != nil {
		fmt.Fprintln(os.Stderr, err)
		os.Exit(2)
	}
	var fns []Fn
	for _, d := range f.Decls {
		fd, ok := d.(*ast.FuncDecl)
		if !ok || fd.Recv != nil || fd.Body == nil {
			continue
		}
		fn := Fn{Name: fd.Name.Name}
		doc := ""
		if fd.Doc != nil {
			doc = fd.Doc.Text()
		}
		for _, p := range fd.Type.Params.List {
			for _, n := range p.Names {
				fn.Params = append(fn.Params, n.Name)
				fn.ParamKinds = append(fn.ParamKinds, typeKind(p.Type))
				fn.Reduced = append(fn.Reduced, strings.Contains(doc, "eval "+n.Name+" < m"))
			}
		}
		func() {
			defer func() {
				if r := recover(); r != nil {
					b, ok := r.(bail)
					if !ok {
						panic(r)
					}
					fn.Unsupported = b.why
					fn.Ins = nil
				}
			}()
			for _, s := range fd.Body.List {
				stmt(s, &fn.Ins)
			}
		}()
		fns = append(fns, fn)
	}
	json.NewEncoder(os.Stdout).Encode(fns)
}
