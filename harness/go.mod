module verifharness

go 1.20

require filippo.io/edwards25519 v0.0.0

replace filippo.io/edwards25519 => /repo
