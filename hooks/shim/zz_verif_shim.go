//go:build verifshim

// In-package shim (never part of /repo: added to the package with `go build -tags verifshim -overlay`).
// It exposes internals whose contracts the specification states (spec/Recode.tla, spec/ScalarMul.tla), so that the
// recodings and lookup tables of the real code can be compared with them at full size.  These comparisons are
// informational (refinement drift): the internal layout is not part of any property, and when this file no longer
// compiles against a refactored tree the checks simply run without it.
package edwards25519

import "filippo.io/edwards25519/field"

func VerifSignedRadix16(s *Scalar) []int8 {
	d := s.signedRadix16()
	return d[:]
}

func VerifNonAdjacentForm(s *Scalar, w uint) []int8 {
	d := s.nonAdjacentForm(w)
	return d[:]
}

// VerifProjTable returns the entries (Y+X, Y-X, Z, 2dT) of the table built for q by the constant-time routines.
func VerifProjTable(q *Point) [][4]field.Element {
	var t projLookupTable
	t.FromP3(q)
	out := make([][4]field.Element, len(t.points))
	for i := range t.points {
		out[i] = [4]field.Element{t.points[i].YplusX, t.points[i].YminusX, t.points[i].Z, t.points[i].T2d}
	}
	return out
}

// VerifProjSelect returns the entry selected for digit x.
func VerifProjSelect(q *Point, x int8) [4]field.Element {
	var t projLookupTable
	t.FromP3(q)
	var c projCached
	t.SelectInto(&c, x)
	return [4]field.Element{c.YplusX, c.YminusX, c.Z, c.T2d}
}

// VerifBasepointTable returns entry j of table i of the precomputed basepoint tables (y+x, y-x, 2dxy).
func VerifBasepointTable(i, j int) [3]field.Element {
	t := basepointTable()
	c := t[i].points[j]
	return [3]field.Element{c.YplusX, c.YminusX, c.T2d}
}

// VerifBasepointNafTable returns entry j of the precomputed table of odd multiples of the basepoint.
func VerifBasepointNafTable(j int) [3]field.Element {
	t := basepointNafTable()
	c := t.points[j]
	return [3]field.Element{c.YplusX, c.YminusX, c.T2d}
}
