//go:build verif

// Package verifrt is the observation runtime injected (with go build -overlay,
// tag verif) next to the instrumented copies of the library sources generated
// by harness/ctinstr.  It is never part of /repo.
//
// Two recording modes:
//   - CT   (single goroutine): the sequence of observations (branch decisions,
//     index / slice-bound / shift-count / division-operand values, lengths,
//     external-call arguments) made between Start and Stop;
//   - CONC (any goroutines): function entry/exit events tagged with a
//     per-scenario goroutine number and a global sequence number taken under
//     one mutex (never wall-clock time).
package verifrt

import (
	"hash/fnv"
	"runtime"
	"sync"
	"sync/atomic"
)

type integer interface {
	~int | ~int8 | ~int16 | ~int32 | ~int64 | ~uint | ~uint8 | ~uint16 | ~uint32 | ~uint64 | ~uintptr
}

// Obs is one observation: site id, kind, value.
type Obs struct {
	Site uint32
	Kind uint8 // 'B' branch, 'I' index/bound/shift/div operand, 'L' loop iteration / length, 'K' case, 'E' enter, 'A' external argument
	Val  uint64
}

var (
	ctOn  bool
	ctBuf []Obs

	concOn  atomic.Bool
	concMu  sync.Mutex
	concSeq uint64
	concLog []ConcEvent
	gids    sync.Map // runtime goroutine id -> scenario goroutine number
	watch   map[int]bool

	// chaos: in a concurrent scenario, yield the processor at pseudo-randomly chosen function entries (seeded), so that with
	// GOMAXPROCS=1 the interleaving of the goroutines is decided at function granularity by the seed instead of by timing
	chaosSeed uint64
	chaosCtr  uint64
)

// SetChaos enables (seed != 0) or disables seeded yielding at function entries.
func SetChaos(seed uint64) { chaosSeed = seed; atomic.StoreUint64(&chaosCtr, 0) }

func mix(x uint64) uint64 {
	x ^= x >> 33
	x *= 0xff51afd7ed558ccd
	x ^= x >> 33
	x *= 0xc4ceb9fe1a85ec53
	x ^= x >> 33
	return x
}

// ConcEvent is a function entry (Exit = false) or exit event.
type ConcEvent struct {
	Seq  uint64
	G    int
	Func uint32
	Exit bool
}

func Start() { ctBuf = ctBuf[:0]; ctOn = true }
func Stop() []Obs {
	ctOn = false
	out := make([]Obs, len(ctBuf))
	copy(out, ctBuf)
	return out
}

func rec(site int, kind uint8, v uint64) {
	if ctOn {
		ctBuf = append(ctBuf, Obs{uint32(site), kind, v})
	}
}

func B[T ~bool](site int, b T) T {
	if ctOn {
		v := uint64(0)
		if b {
			v = 1
		}
		rec(site, 'B', v)
	}
	return b
}

func I[T integer](site int, i T) T {
	if ctOn {
		rec(site, 'I', uint64(int64(i)))
	}
	return i
}

func L(site int) {
	if ctOn {
		rec(site, 'L', 0)
	}
}

func K(site int, k int) {
	if ctOn {
		rec(site, 'K', uint64(k))
	}
}

func Len[S ~[]E, E any](site int, s S) S {
	if ctOn {
		rec(site, 'L', uint64(len(s)))
	}
	return s
}

// A records (a hash of) an argument handed to a function outside the library that is not on the constant-time allow-list.
func A[T any](site int, a T) T {
	if ctOn {
		h := fnv.New64a()
		switch x := any(a).(type) {
		case []byte:
			h.Write(x)
		case string:
			h.Write([]byte(x))
		case int:
			h.Write([]byte{byte(x), byte(x >> 8), byte(x >> 16), byte(x >> 24), byte(x >> 32)})
		case uint64:
			h.Write([]byte{byte(x), byte(x >> 8), byte(x >> 16), byte(x >> 24), byte(x >> 32), byte(x >> 40), byte(x >> 48), byte(x >> 56)})
		default:
			h.Write([]byte("?"))
		}
		rec(site, 'A', h.Sum64())
	}
	return a
}

func goid() uint64 {
	var buf [64]byte
	n := runtime.Stack(buf[:], false)
	// "goroutine 123 ["
	var id uint64
	for _, c := range buf[10:n] {
		if c < '0' || c > '9' {
			break
		}
		id = id*10 + uint64(c-'0')
	}
	return id
}

// Enter / Exit: function entry and exit.
func Enter(fid int) {
	if ctOn {
		rec(fid, 'E', 0)
	}
	if concOn.Load() {
		if chaosSeed != 0 {
			n := atomic.AddUint64(&chaosCtr, 1)
			if mix(n*0x9e3779b97f4a7c15+chaosSeed)%7 == 0 {
				runtime.Gosched()
			}
		}
		if watch[fid] {
			conc(fid, false)
		}
	}
}

func Exit(fid int) {
	if concOn.Load() && watch[fid] {
		conc(fid, true)
	}
}

func conc(fid int, exit bool) {
	g := -1
	if v, ok := gids.Load(goid()); ok {
		g = v.(int)
	}
	concMu.Lock()
	concSeq++
	concLog = append(concLog, ConcEvent{concSeq, g, uint32(fid), exit})
	concMu.Unlock()
}

// ConcStart begins a concurrent scenario; Register names the calling goroutine.
// (only the functions in the watch set are logged; the set is fixed before the goroutines start)
func ConcStart(ids []int) {
	concMu.Lock()
	concLog = nil
	concSeq = 0
	watch = map[int]bool{}
	for _, i := range ids {
		watch[i] = true
	}
	concMu.Unlock()
	concOn.Store(true)
}
func Register(g int) { gids.Store(goid(), g) }
func ConcStop() []ConcEvent {
	concOn.Store(false)
	concMu.Lock()
	defer concMu.Unlock()
	return concLog
}
