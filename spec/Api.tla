--------------------------------- MODULE Api --------------------------------
(***************************************************************************)
(* The exported API as a state machine over a small register file, on a    *)
(* toy curve (T29: 24 points).  One action per exported function; the      *)
(* parameters of an action are register NAMES, so "the receiver aliases    *)
(* argument 2" is simply r = b, and a receiver has whatever history the    *)
(* behaviour gave it.  Each action is guard -> outcome (Ok / Err / Panic)  *)
(* -> effect, following the documentation of the library:                  *)
(*    Panic  iff some Point INPUT is the zero value, or the two slices of  *)
(*           a multi-scalar call differ in length          (C15)           *)
(*    Err    iff the input of a fallible setter is outside its accept set; *)
(*           then the receiver is unchanged                (C14)           *)
(*    Ok     the receiver holds the value defined by Group / Scalar        *)
(*           (C01, C02, ...), nothing else changes         (C11, C19)      *)
(*                                                                         *)
(* Uses: (1) TLC checks the invariants over all reachable states (every    *)
(* register is the zero value or a curve point: C12; named deviations      *)
(* must break them); (2) `tlc -simulate` generates behaviours -- operation *)
(* histories with their aliasing, receiver histories, failing setters and  *)
(* panicking calls in the middle -- which bin/apigen.py turns into driver  *)
(* programs on the real curve (leaf values of the same class); the real    *)
(* executions are then validated event by event by TraceApi.               *)
(***************************************************************************)
EXTENDS Edwards, Curves, Json, TLC, FiniteSets

CONSTANTS N, RECORD, MAXLEN, BUG_MSM_NoReset, BUG_SetExt_NoZCheck,
          PReg, SReg           \* register names, e.g. {"p0", "p1", "p2"} and {"s0", "s1"}

Elems  == FAll(N)
Points == { q \in { Pt(x, y) : x \in Elems, y \in Elems } : OnCurve(q) }
Gen    == CHOOSE g \in Points : EOrder(g, 8 * BNToInt(L) + 1) = 8 * BNToInt(L)
\* discrete logarithm table: the point [a]Gen for a = 0 .. 8L-1
RECURSIVE MulTab(_, _)
MulTab(a, acc) == IF a = 8 * BNToInt(L) THEN <<>> ELSE <<acc>> \o MulTab(a + 1, EAdd(acc, Gen))
PtOf == MulTab(0, Identity)                         \* PtOf[a+1] = [a]Gen
IdxOf(p) == CHOOSE a \in 0..(8 * BNToInt(L) - 1) : PtOf[a + 1] = p
BaseP  == EMul(BNOfInt(8), Gen)                     \* the base point: prime order L

Uninit == Pt(FZero, FZero)                          \* the zero value (not a curve point)
Degen  == Pt(BNOfInt(N), BNOfInt(N))                \* a degenerate (invalid) Point: only reachable through a named deviation
IsValidPt(p) == p \in Points

Scalars == BNRange(BNToInt(L))

VARIABLES pt, sc, out, hist
vars == <<pt, sc, out, hist>>

Rec(e) == IF RECORD THEN Append(hist, e) ELSE hist

Init == /\ pt = [r \in PReg |-> Uninit]
        /\ sc = [s \in SReg |-> BNZero]
        /\ out = "none"
        /\ hist = <<>>

\* ---- helpers ------------------------------------------------------------
AnyUninit(S) == \E r \in S : pt[r] = Uninit
AnyDegen(S)  == \E r \in S : pt[r] = Degen
\* the result of a point operation: degenerate inputs give degenerate outputs
PtOp(r, inputs, val, name, args) ==
    IF AnyUninit(inputs)
    THEN /\ out' = "panic" /\ UNCHANGED <<pt, sc>>
         /\ hist' = Rec([op |-> name, r |-> r, a |-> args, outcome |-> "panic"])
    ELSE /\ out' = "ok"
         /\ pt' = [pt EXCEPT ![r] = IF AnyDegen(inputs) THEN Degen ELSE val]
         /\ UNCHANGED sc
         /\ hist' = Rec([op |-> name, r |-> r, a |-> args, outcome |-> "ok"])

\* ---- leaf values (class information for the concretiser) -----------------
LoadPoint(r) == \E a \in 0..(8 * BNToInt(L) - 1) : \E how \in {"bytes", "bytes-nc", "ext", "ext-lam", "new"} :
    /\ (how = "new" => a \in {0, 8})                 \* NewIdentityPoint / NewGeneratorPoint (the base point is [8]Gen)
    /\ pt' = [pt EXCEPT ![r] = PtOf[a + 1]]
    /\ out' = "ok" /\ UNCHANGED sc
    /\ hist' = Rec([op |-> "LoadPoint", r |-> r, idx |-> a, how |-> how, outcome |-> "ok"])
LoadScalar(s) == \E k \in Scalars : \E how \in {"canon", "wide", "clamp-any"} :
    /\ sc' = [sc EXCEPT ![s] = k]
    /\ out' = "ok" /\ UNCHANGED pt
    /\ hist' = Rec([op |-> "LoadScalar", r |-> s, k |-> BNToInt(k), how |-> how, outcome |-> "ok"])

\* ---- fallible setters ----------------------------------------------------
SetBytesBad(r) == \E why \in {"off-curve", "short", "long", "empty", "nil"} :
    /\ out' = "err" /\ UNCHANGED <<pt, sc>>
    /\ hist' = Rec([op |-> "Point.SetBytes.bad", r |-> r, why |-> why, outcome |-> "err"])
ScalarSetBad(s) == \E why \in {"canon-ge-l", "canon-len", "uniform-len", "clamp-len"} :
    /\ out' = "err" /\ UNCHANGED <<pt, sc>>
    /\ hist' = Rec([op |-> "Scalar.Set.bad", r |-> s, why |-> why, outcome |-> "err"])
\* export the coordinates of a, perturb them, import into r
ExtRoundTrip(r, a) == \E how \in {"same", "rescaled", "incT", "zeroZ", "allzero", "garbage", "swapXY"} :
    IF pt[a] = Uninit
    THEN /\ out' = "panic" /\ UNCHANGED <<pt, sc>>
         /\ hist' = Rec([op |-> "Ext", r |-> r, a |-> <<a>>, how |-> how, outcome |-> "panic"])
    ELSE LET accepted == how \in {"same", "rescaled"} \/ (how = "allzero" /\ BUG_SetExt_NoZCheck)
                         \* ("incT": T + 1 is never consistent with XY = ZT since Z # 0.  Perturbations whose acceptance depends on
                         \*  the VALUE of the point, like negating T, are left to the suites: derived toy values do not map to real ones)
                         \/ (how = "swapXY" /\ pt[a] # Degen /\ OnCurve(Pt(pt[a].y, pt[a].x)))
             val == IF how = "allzero" THEN Degen
                    ELSE IF how = "swapXY" THEN Pt(pt[a].y, pt[a].x) ELSE pt[a]
         IN  /\ out' = IF accepted THEN "ok" ELSE "err"
             /\ pt' = IF accepted THEN [pt EXCEPT ![r] = val] ELSE pt
             /\ UNCHANGED sc
             /\ hist' = Rec([op |-> "Ext", r |-> r, a |-> <<a>>, how |-> how, outcome |-> IF accepted THEN "ok" ELSE "err"])

\* ---- point operations ------------------------------------------------------
PSet(r, a)    == /\ pt' = [pt EXCEPT ![r] = pt[a]] /\ out' = "ok" /\ UNCHANGED sc     \* plain copy: no guard
                 /\ hist' = Rec([op |-> "Point.Set", r |-> r, a |-> <<a>>, outcome |-> "ok"])
PAdd(r, a, b) == PtOp(r, {a, b}, EAdd(pt[a], pt[b]), "Point.Add", <<a, b>>)
PSub(r, a, b) == PtOp(r, {a, b}, ESub(pt[a], pt[b]), "Point.Subtract", <<a, b>>)
PNeg(r, a)    == PtOp(r, {a}, ENeg(pt[a]), "Point.Negate", <<a>>)
PCof(r, a)    == PtOp(r, {a}, EMul(BNOfInt(8), pt[a]), "Point.MultByCofactor", <<a>>)
PObserve(a, b) == \E what \in {"Point.Equal", "Point.Bytes", "Point.BytesMontgomery"} :
    /\ out' = IF AnyUninit(IF what = "Point.Equal" THEN {a, b} ELSE {a}) THEN "panic" ELSE "ok"
    /\ UNCHANGED <<pt, sc>>
    /\ hist' = Rec([op |-> what, r |-> a, a |-> <<b>>, outcome |-> out'])
PScalarMult(r, s, a) == PtOp(r, {a}, EMul(sc[s], pt[a]), "Point.ScalarMult", <<s, a>>)
PBaseMult(r, s)      == PtOp(r, {}, EMul(sc[s], BaseP), "Point.ScalarBaseMult", <<s>>)
PDouble(r, s, a, t)  == PtOp(r, {a}, EAdd(EMul(sc[s], pt[a]), EMul(sc[t], BaseP)), "Point.VarTimeDoubleScalarBaseMult", <<s, a, t>>)
\* multi-scalar: slices of length 0..2 over the registers, possibly of different lengths (panic)
Multi(r, vartime) == \E ss \in UNION {[1..n -> SReg] : n \in 0..2} : \E ps \in UNION {[1..n -> PReg] : n \in 0..2} :
    LET name == IF vartime THEN "Point.VarTimeMultiScalarMult" ELSE "Point.MultiScalarMult"
        inputs == {ps[i] : i \in 1..Len(ps)}
    IN  IF Len(ss) # Len(ps) \/ AnyUninit(inputs)
        THEN /\ out' = "panic" /\ UNCHANGED <<pt, sc>>
             /\ hist' = Rec([op |-> name, r |-> r, ss |-> ss, ps |-> ps, outcome |-> "panic"])
        ELSE LET sum == EMSum([i \in 1..Len(ss) |-> sc[ss[i]]], [i \in 1..Len(ps) |-> pt[ps[i]]], 1)
                 \* the defect fixed by 8c2cf14: the accumulator is whatever the receiver held
                 val == IF BUG_MSM_NoReset /\ ~vartime
                        THEN (IF pt[r] = Uninit \/ pt[r] = Degen THEN Degen ELSE EAdd(EMul(BNPow2(4 * 2 * SNB - 4), pt[r]), sum))
                        ELSE sum
             IN  /\ out' = "ok"
                 /\ pt' = [pt EXCEPT ![r] = IF AnyDegen(inputs) THEN Degen ELSE val]
                 /\ UNCHANGED sc
                 /\ hist' = Rec([op |-> name, r |-> r, ss |-> ss, ps |-> ps, outcome |-> "ok"])

\* ---- scalar operations -----------------------------------------------------
SOp(r, val, name, args) == /\ sc' = [sc EXCEPT ![r] = val] /\ out' = "ok" /\ UNCHANGED pt
                           /\ hist' = Rec([op |-> name, r |-> r, a |-> args, outcome |-> "ok"])
ScalarOps(r, a, b) ==
    \/ SOp(r, SAdd(sc[a], sc[b]), "Scalar.Add", <<a, b>>)
    \/ SOp(r, SSub(sc[a], sc[b]), "Scalar.Subtract", <<a, b>>)
    \/ SOp(r, SMul(sc[a], sc[b]), "Scalar.Multiply", <<a, b>>)
    \/ SOp(r, SNeg(sc[a]), "Scalar.Negate", <<a>>)
    \/ SOp(r, SInv(sc[a]), "Scalar.Invert", <<a>>)
    \/ SOp(r, SMulAdd(sc[a], sc[b], sc[r]), "Scalar.MultiplyAdd", <<a, b, r>>)

Next ==
    /\ (RECORD => Len(hist) < MAXLEN)
    /\ \/ \E r \in PReg : LoadPoint(r) \/ SetBytesBad(r) \/ Multi(r, TRUE) \/ Multi(r, FALSE)
       \/ \E s \in SReg : LoadScalar(s) \/ ScalarSetBad(s)
       \/ \E r \in PReg : \E a \in PReg : PSet(r, a) \/ PNeg(r, a) \/ PCof(r, a) \/ ExtRoundTrip(r, a) \/ PObserve(r, a)
       \/ \E r \in PReg : \E a \in PReg : \E b \in PReg : PAdd(r, a, b) \/ PSub(r, a, b)
       \/ \E r \in PReg : \E s \in SReg : PBaseMult(r, s) \/ \E a \in PReg : PScalarMult(r, s, a) \/ \E t \in SReg : PDouble(r, s, a, t)
       \/ \E r \in SReg : \E a \in SReg : \E b \in SReg : ScalarOps(r, a, b)

Spec == Init /\ [][Next]_vars

\* ---- properties ------------------------------------------------------------
\* C12: every register is the zero value or a curve point
AllValid   == \A r \in PReg : pt[r] = Uninit \/ IsValidPt(pt[r])
ScalarsOK  == \A s \in SReg : SIsScalar(sc[s])
\* C14 / C15 as action properties: a failed or panicking call changes nothing
Atomic     == [][out' \in {"err", "panic"} => UNCHANGED <<pt, sc>>]_vars
\* behaviours for the concretiser
Emit       == (RECORD /\ Len(hist) = MAXLEN) => PrintT("VBEH " \o ToJson(hist))
=============================================================================
