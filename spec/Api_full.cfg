CONSTANTS
  P <- T29P
  D <- T29D
  L <- T29L
  N <- T29N
  NB = 1
  SNB = 1
  RECORD = FALSE
  MAXLEN = 0
  BUG_MSM_NoReset = FALSE
  BUG_SetExt_NoZCheck = FALSE
  PReg = {"p0", "p1", "p2"}
  SReg = {"s0", "s1"}
SPECIFICATION Spec
INVARIANTS AllValid ScalarsOK 
PROPERTY Atomic
CHECK_DEADLOCK FALSE
