CONSTANTS
  P <- T29P
  D <- T29D
  L <- T29L
  N <- T29N
  NB = 1
  SNB = 1
  RECORD = TRUE
  MAXLEN = 24
  BUG_MSM_NoReset = FALSE
  BUG_SetExt_NoZCheck = FALSE
  PReg = {"p0", "p1", "p2"}
  SReg = {"s0", "s1"}
SPECIFICATION Spec
INVARIANTS AllValid ScalarsOK Emit
PROPERTY Atomic
CHECK_DEADLOCK FALSE
