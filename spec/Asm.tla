--------------------------------- MODULE Asm --------------------------------
(***************************************************************************)
(* A machine for the instruction subset the library's assembly is          *)
(* generated from:                                                         *)
(*   amd64: MOVQ MULQ IMUL3Q ADDQ ADCQ SHLQ (single and double) SHRQ ANDQ  *)
(*   arm64: MOVD LDP STP AND ADD (with shifted operand) LSR MADD           *)
(* The program is a constant (module AsmData, extracted from the .s files  *)
(* of the working tree by bin/asmx.py); there are no jumps in the subset,  *)
(* so execution is a fold over the instruction sequence.  Registers hold   *)
(* 64-bit values or a pointer to one of the argument vectors (<<-1, k>>);  *)
(* a memory operand must be "argument pointer + constant" (anything else   *)
(* is recorded in `bad`: property C03 for the assembly).  All arithmetic   *)
(* is done over the naturals and compared with its 64-bit truncation:      *)
(*   - a carry out of ADDQ must be consumed by an ADCQ directly after it;  *)
(*   - ADCQ, IMUL3Q, single SHLQ, ADD, MADD must not lose bits;            *)
(*   - the double shift SHLQ $k, lo, hi must not shift set bits out of hi  *)
(*     (the "at most 115 bits" assumption of shiftRightBy51).              *)
(* Something the CPU cannot tell, and for the arm64 file, which cannot be  *)
(* executed on this machine at all, the only execution there is.           *)
(***************************************************************************)
EXTENDS Limbs, Sequences, Integers

W64      == BNPow2(64)
Lo64(x)  == BNLowBits(x, 64)
IsPtr(v) == Len(v) = 2 /\ v[1] = -1
Ptr(k)   == <<-1, k>>

\* machine state: reg (register file), cf (carry flag), pend (an ADDQ carry waiting for its ADCQ), mem (vectors by pointer
\* number: 0 = out / in-place, 1 = a, 2 = b), bad (violated obligations)
InitState(argnames, vecs) ==
    [reg |-> [r \in {} |-> <<>>], cf |-> 0, pend |-> FALSE, mem |-> vecs, args |-> argnames, bad |-> {}]

Get(st, r) == IF r \in DOMAIN st.reg THEN st.reg[r] ELSE <<>>
Set(st, r, v) == [st EXCEPT !.reg = [x \in DOMAIN st.reg \cup {r} |-> IF x = r THEN v ELSE st.reg[x]]]
Flag(st, what, pc) == [st EXCEPT !.bad = @ \cup {<<what, pc>>}]

\* which argument vector a pointer-typed FP argument names: the position of its name in st.args, minus one
ArgIndex(st, name) == CHOOSE k \in 0..(Len(st.args) - 1) : st.args[k + 1] = name

\* read an operand as a value
Read(st, o, pc) ==
    CASE o.k = "imm" -> o.v
      [] o.k = "reg" -> Get(st, o.r)
      [] o.k = "arg" -> Ptr(ArgIndex(st, o.r))
      [] o.k = "mem" -> IF IsPtr(Get(st, o.r)) /\ o.n % 8 = 0 /\ o.n \div 8 < NL
                        THEN st.mem[Get(st, o.r)[2] + 1][(o.n \div 8) + 1] ELSE <<>>
      [] o.k = "shr" -> BNShr(Get(st, o.r), o.n)
      [] OTHER -> <<>>
MemOK(st, o) == o.k # "mem" \/ (IsPtr(Get(st, o.r)) /\ o.n % 8 = 0 /\ o.n \div 8 < NL)
Store(st, o, v) ==      \* o is a mem operand
    LET p == Get(st, o.r)[2] + 1  i == (o.n \div 8) + 1
    IN  [st EXCEPT !.mem = [st.mem EXCEPT ![p] = [st.mem[p] EXCEPT ![i] = v]]]

\* bitwise AND of two naturals (only used with masks of the form 2^k - 1 in these routines; checked)
BNAndNat(x, y) == IF BNAdd(y, BNOne) = BNPow2(BNBitLen(y)) THEN BNLowBits(x, BNBitLen(y))
                  ELSE IF BNAdd(x, BNOne) = BNPow2(BNBitLen(x)) THEN BNLowBits(y, BNBitLen(x))
                  ELSE <<>>

AStep(st0, ins, pc) ==
    LET st1 == IF st0.pend /\ ins.op # "ADCQ" THEN Flag(st0, "carry of ADDQ not consumed", pc) ELSE st0
        st2 == IF \A o \in {ins.a, ins.b, ins.c, ins.d} : MemOK(st1, o) THEN st1 ELSE Flag(st1, "memory operand is not argument pointer + constant", pc)
        st  == [st2 EXCEPT !.pend = FALSE]
        A == Read(st, ins.a, pc)   Bv == Read(st, ins.b, pc)   Cv == Read(st, ins.c, pc)
    IN
    CASE ins.op \in {"MOVQ", "MOVD"} ->
           IF ins.b.k = "mem" THEN Store(st, ins.b, A) ELSE Set(st, ins.b.r, A)
      [] ins.op = "MULQ" ->                                   \* DX:AX = AX * src
           LET t == BNMul(Get(st, "AX"), A) IN Set(Set(st, "AX", Lo64(t)), "DX", BNShr(t, 64))
      [] ins.op = "IMUL3Q" ->                                 \* dst = imm * src
           LET t == BNMul(A, Bv)
               s == Set(st, ins.c.r, Lo64(t))
           IN  IF BNLt(t, W64) THEN s ELSE Flag(s, "IMUL3Q overflow", pc)
      [] ins.op = "ADDQ" ->
           LET t == BNAdd(A, Bv) IN
           [Set(st, ins.b.r, Lo64(t)) EXCEPT !.cf = IF BNLt(t, W64) THEN 0 ELSE 1, !.pend = ~BNLt(t, W64)]
      [] ins.op = "ADCQ" ->
           LET t == BNAdd(BNAdd(A, Bv), BNOfInt(st.cf))
               s == [Set(st, ins.b.r, Lo64(t)) EXCEPT !.cf = 0]
           IN  IF BNLt(t, W64) THEN s ELSE Flag(s, "ADCQ carry out (accumulator overflow)", pc)
      [] ins.op = "SHLQ" ->
           IF ins.n = 2
           THEN LET t == BNShl(Bv, BNToInt(A))  s == Set(st, ins.b.r, Lo64(t))
                IN  IF BNLt(t, W64) THEN s ELSE Flag(s, "SHLQ lost bits", pc)
           ELSE LET k == BNToInt(A)                           \* SHLQ $k, lo, hi : hi = hi<<k | lo>>(64-k)
                    t == BNShl(Cv, k)
                    s == Set(st, ins.c.r, BNAdd(Lo64(t), BNShr(Bv, 64 - k)))
                IN  IF BNLt(t, W64) THEN s ELSE Flag(s, "double shift lost high bits (more than 115 bits)", pc)
      [] ins.op = "SHRQ" -> Set(st, ins.b.r, BNShr(Bv, BNToInt(A)))
      [] ins.op = "ANDQ" -> Set(st, ins.b.r, BNAndNat(A, Bv))
      \* ---- arm64 (Go operand order: sources first, destination last)
      [] ins.op = "LDP" ->                                    \* LDP off(Rn), (Rt1, Rt2)
           LET o2 == [ins.a EXCEPT !.n = ins.a.n + 8]
               s == IF MemOK(st, o2) THEN st ELSE Flag(st, "memory operand is not argument pointer + constant", pc)
           IN  Set(Set(s, ins.b.r, A), ins.b.r2, Read(s, o2, pc))
      [] ins.op = "STP" ->                                    \* STP (Rt1, Rt2), off(Rn)
           LET o2 == [ins.b EXCEPT !.n = ins.b.n + 8]
           IN  Store(Store(st, ins.b, Get(st, ins.a.r)), o2, Get(st, ins.a.r2))
      [] ins.op = "AND" -> Set(st, ins.c.r, BNAndNat(A, Bv))  \* AND $imm, Rn, Rd
      [] ins.op = "ADD" ->                                    \* ADD Rm>>k, Rn, Rd
           LET t == BNAdd(A, Bv)  s == Set(st, ins.c.r, Lo64(t))
           IN  IF BNLt(t, W64) THEN s ELSE Flag(s, "ADD overflow", pc)
      [] ins.op = "LSR" -> Set(st, ins.c.r, BNShr(Bv, BNToInt(A)))      \* LSR $k, Rn, Rd
      [] ins.op = "MADD" ->                                   \* MADD Rm, Ra, Rn, Rd : Rd = Ra + Rn * Rm
           LET t == BNAdd(Bv, BNMul(Cv, A))  s == Set(st, ins.d.r, Lo64(t))
           IN  IF BNLt(t, W64) THEN s ELSE Flag(s, "MADD overflow", pc)
      [] ins.op = "RET" -> st
      [] OTHER -> Flag(st, "unknown instruction", pc)

RECURSIVE Exec(_, _, _)
Exec(prog, pc, st) == IF pc > Len(prog) THEN st ELSE Exec(prog, pc + 1, AStep(st, prog[pc], pc))
Run(prog, argnames, vecs) == Exec(prog, 1, InitState(argnames, vecs))
=============================================================================
