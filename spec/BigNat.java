// TLC module overrides for BigNat.tla (java.math.BigInteger).
// A BigNat is a TupleValue of IntValues 0..255, little endian, normalised.
// The pure TLA+ definitions in BigNat.tla are normative; MC_BigNat checks
// that these overrides agree with them.
import java.math.BigInteger;

import tlc2.value.impl.IntValue;
import tlc2.value.impl.TupleValue;
import tlc2.value.impl.Value;

public class BigNat {
    private static final Value[] EMPTY = new Value[0];

    static BigInteger toBig(Value v) {
        TupleValue tv = (TupleValue) v.toTuple();
        if (tv == null) {
            throw new RuntimeException("BigNat: not a sequence: " + v);
        }
        Value[] e = tv.elems;
        int n = e.length;
        byte[] be = new byte[n + 1]; // big endian, leading 0 => non-negative
        for (int i = 0; i < n; i++) {
            int b = ((IntValue) e[i]).val;
            if (b < 0 || b > 255) {
                throw new RuntimeException("BigNat: element out of byte range: " + b);
            }
            be[n - i] = (byte) b;
        }
        return new BigInteger(be);
    }

    static Value fromBig(BigInteger x) {
        if (x.signum() < 0) {
            throw new RuntimeException("BigNat: negative result");
        }
        if (x.signum() == 0) {
            return new TupleValue(EMPTY);
        }
        byte[] be = x.toByteArray();
        int start = (be[0] == 0) ? 1 : 0;
        int n = be.length - start;
        Value[] e = new Value[n];
        for (int i = 0; i < n; i++) {
            e[i] = IntValue.gen(be[be.length - 1 - i] & 0xff);
        }
        return new TupleValue(e);
    }

    static int toInt(Value v) {
        return ((IntValue) v).val;
    }

    public static Value BNNorm(Value s) { return fromBig(toBig(s)); }

    public static Value BNOfInt(Value n) { return fromBig(BigInteger.valueOf(toInt(n))); }

    public static Value BNToInt(Value a) { return IntValue.gen(toBig(a).intValueExact()); }

    public static Value BNCmp(Value a, Value b) { return IntValue.gen(toBig(a).compareTo(toBig(b))); }

    public static Value BNAdd(Value a, Value b) { return fromBig(toBig(a).add(toBig(b))); }

    public static Value BNSub(Value a, Value b) {
        BigInteger r = toBig(a).subtract(toBig(b));
        return fromBig(r.signum() < 0 ? BigInteger.ZERO : r);
    }

    public static Value BNMul(Value a, Value b) { return fromBig(toBig(a).multiply(toBig(b))); }

    public static Value BNDivMod(Value a, Value b) {
        BigInteger[] qr = toBig(a).divideAndRemainder(toBig(b));
        return new TupleValue(new Value[] { fromBig(qr[0]), fromBig(qr[1]) });
    }

    public static Value BNDiv(Value a, Value b) { return fromBig(toBig(a).divide(toBig(b))); }

    public static Value BNMod(Value a, Value m) { return fromBig(toBig(a).mod(toBig(m))); }

    public static Value BNPowMod(Value a, Value e, Value m) {
        return fromBig(toBig(a).modPow(toBig(e), toBig(m)));
    }

    public static Value BNShl(Value a, Value k) { return fromBig(toBig(a).shiftLeft(toInt(k))); }

    public static Value BNShr(Value a, Value k) { return fromBig(toBig(a).shiftRight(toInt(k))); }

    public static Value BNLowBits(Value a, Value k) {
        BigInteger mask = BigInteger.ONE.shiftLeft(toInt(k)).subtract(BigInteger.ONE);
        return fromBig(toBig(a).and(mask));
    }

    public static Value BNBit(Value a, Value i) { return IntValue.gen(toBig(a).testBit(toInt(i)) ? 1 : 0); }

    public static Value BNBitLen(Value a) { return IntValue.gen(toBig(a).bitLength()); }

    public static Value BNAddMod(Value a, Value b, Value m) {
        return fromBig(toBig(a).add(toBig(b)).mod(toBig(m)));
    }

    public static Value BNSubMod(Value a, Value b, Value m) {
        return fromBig(toBig(a).subtract(toBig(b)).mod(toBig(m)));
    }

    public static Value BNMulMod(Value a, Value b, Value m) {
        return fromBig(toBig(a).multiply(toBig(b)).mod(toBig(m)));
    }
}
