------------------------------- MODULE BigNat -------------------------------
(***************************************************************************)
(* Arbitrary-precision naturals for TLC, whose own integers are 32 bit.    *)
(*                                                                         *)
(* A BigNat is a little-endian sequence of bytes (0..255) without trailing *)
(* (most significant) zero bytes; zero is the empty sequence.  Hence two   *)
(* BigNats are equal as TLA+ values iff they are the same number, and a    *)
(* byte string logged by the implementation is turned into its number by   *)
(* stripping the trailing zeros (BNFromBytes).                             *)
(*                                                                         *)
(* Every operator below has a pure TLA+ definition, which is normative.    *)
(* BigNat.java provides TLC module overrides (java.math.BigInteger) for    *)
(* the same operators; MC_BigNat checks that both agree.  The operators    *)
(* whose name ends in "Pure" are never overridden; they are what MC_BigNat *)
(* compares the overridden ones with.                                      *)
(***************************************************************************)
EXTENDS Integers, Sequences

LOCAL Max(a, b) == IF a >= b THEN a ELSE b
LOCAL Min(a, b) == IF a <= b THEN a ELSE b

BNIsNat(a) == /\ a \in Seq(0..255)
              /\ (Len(a) = 0 \/ a[Len(a)] # 0)

RECURSIVE BNNormPure(_)
BNNormPure(s) == IF Len(s) = 0 THEN <<>>
                 ELSE IF s[Len(s)] = 0 THEN BNNormPure(SubSeq(s, 1, Len(s) - 1))
                 ELSE s

BNZero == <<>>
BNOne  == <<1>>

RECURSIVE BNOfIntPure(_)
BNOfIntPure(n) == IF n = 0 THEN <<>> ELSE <<n % 256>> \o BNOfIntPure(n \div 256)

RECURSIVE BNToIntPure(_)
BNToIntPure(a) == IF Len(a) = 0 THEN 0 ELSE a[1] + 256 * BNToIntPure(Tail(a))

LOCAL Byte(a, i) == IF i <= Len(a) THEN a[i] ELSE 0

\* comparison: -1, 0, 1
RECURSIVE BNCmpFrom(_, _, _)
BNCmpFrom(a, b, i) == IF i = 0 THEN 0
                      ELSE IF Byte(a, i) < Byte(b, i) THEN -1
                      ELSE IF Byte(a, i) > Byte(b, i) THEN 1
                      ELSE BNCmpFrom(a, b, i - 1)
BNCmpPure(a, b) == BNCmpFrom(a, b, Max(Len(a), Len(b)))

RECURSIVE BNAddFrom(_, _, _, _, _)
BNAddFrom(a, b, i, n, c) ==
    IF i > n THEN (IF c = 0 THEN <<>> ELSE <<c>>)
    ELSE LET s == Byte(a, i) + Byte(b, i) + c
         IN  <<s % 256>> \o BNAddFrom(a, b, i + 1, n, s \div 256)
BNAddPure(a, b) == BNAddFrom(a, b, 1, Max(Len(a), Len(b)), 0)

\* a - b for a >= b; (truncated subtraction: 0 if a < b)
RECURSIVE BNSubFrom(_, _, _, _, _)
BNSubFrom(a, b, i, n, br) ==
    IF i > n THEN <<>>
    ELSE LET s == Byte(a, i) - Byte(b, i) - br
         IN  IF s < 0 THEN <<s + 256>> \o BNSubFrom(a, b, i + 1, n, 1)
                      ELSE <<s>> \o BNSubFrom(a, b, i + 1, n, 0)
BNSubPure(a, b) == IF BNCmpPure(a, b) < 0 THEN <<>>
                   ELSE BNNormPure(BNSubFrom(a, b, 1, Len(a), 0))

\* a * (one byte) + carry
RECURSIVE BNMulByteFrom(_, _, _, _)
BNMulByteFrom(a, m, i, c) ==
    IF i > Len(a) THEN BNOfIntPure(c)
    ELSE LET s == a[i] * m + c
         IN  <<s % 256>> \o BNMulByteFrom(a, m, i + 1, s \div 256)
RECURSIVE BNMulFrom(_, _, _)
BNMulFrom(a, b, j) ==
    IF j > Len(b) THEN <<>>
    ELSE BNAddPure(BNNormPure(BNMulByteFrom(a, b[j], 1, 0)),
                   LET r == BNMulFrom(a, b, j + 1) IN IF r = <<>> THEN <<>> ELSE <<0>> \o r)
BNMulPure(a, b) == BNNormPure(BNMulFrom(a, b, 1))

BNBitLenPure(a) ==
    IF Len(a) = 0 THEN 0
    ELSE LET t == a[Len(a)]
             RECURSIVE bl(_)
             bl(x) == IF x = 0 THEN 0 ELSE 1 + bl(x \div 2)
         IN 8 * (Len(a) - 1) + bl(t)

LOCAL Pow2(k) == CASE k = 0 -> 1 [] k = 1 -> 2 [] k = 2 -> 4 [] k = 3 -> 8
                   [] k = 4 -> 16 [] k = 5 -> 32 [] k = 6 -> 64 [] k = 7 -> 128 [] k = 8 -> 256

BNBitPure(a, i) == (Byte(a, (i \div 8) + 1) \div Pow2(i % 8)) % 2

\* shift left by k bits
BNShlPure(a, k) ==
    IF Len(a) = 0 THEN <<>>
    ELSE LET q == k \div 8
             r == k % 8
             zeros == [j \in 1..q |-> 0]
         IN  zeros \o BNNormPure(BNMulByteFrom(a, Pow2(r), 1, 0))

\* shift right by k bits
BNShrPure(a, k) ==
    LET q == k \div 8
        r == k % 8
    IN  IF q >= Len(a) THEN <<>>
        ELSE LET t == SubSeq(a, q + 1, Len(a))
                 n == Len(t)
             IN  BNNormPure([j \in 1..n |->
                      (t[j] \div Pow2(r)) + (Byte(t, j + 1) % Pow2(r)) * Pow2(8 - r)])

\* the low k bits of a
BNLowBitsPure(a, k) ==
    LET q == k \div 8
        r == k % 8
        n == Min(Len(a), IF r = 0 THEN q ELSE q + 1)
    IN  BNNormPure([j \in 1..n |-> IF j = q + 1 THEN a[j] % Pow2(r) ELSE a[j]])

\* long division, one bit at a time: <<quotient, remainder>>; b # 0
RECURSIVE BNDivModFrom(_, _, _, _, _)
BNDivModFrom(a, b, i, q, r) ==
    IF i < 0 THEN <<q, r>>
    ELSE LET r2 == BNAddPure(BNShlPure(r, 1), IF BNBitPure(a, i) = 1 THEN <<1>> ELSE <<>>)
             q2 == BNShlPure(q, 1)
         IN  IF BNCmpPure(r2, b) >= 0
             THEN BNDivModFrom(a, b, i - 1, BNAddPure(q2, <<1>>), BNSubPure(r2, b))
             ELSE BNDivModFrom(a, b, i - 1, q2, r2)
BNDivModPure(a, b) == BNDivModFrom(a, b, BNBitLenPure(a) - 1, <<>>, <<>>)

BNModPure(a, m) == BNDivModPure(a, m)[2]
BNDivPure(a, m) == BNDivModPure(a, m)[1]

RECURSIVE BNPowModFrom(_, _, _, _, _)
BNPowModFrom(a, e, m, i, acc) ==
    IF i < 0 THEN acc
    ELSE LET sq == BNModPure(BNMulPure(acc, acc), m)
         IN  BNPowModFrom(a, e, m, i - 1,
                  IF BNBitPure(e, i) = 1 THEN BNModPure(BNMulPure(sq, a), m) ELSE sq)
BNPowModPure(a, e, m) == BNPowModFrom(BNModPure(a, m), e, m, BNBitLenPure(e) - 1, BNModPure(<<1>>, m))

-----------------------------------------------------------------------------
(* The operators used by the rest of the specification.  TLC replaces them  *)
(* by the methods of BigNat.class when that class is on the class path      *)
(* (next to this file); without it these definitions are evaluated.         *)

BNNorm(s)        == BNNormPure(s)
BNOfInt(n)       == BNOfIntPure(n)
BNToInt(a)       == BNToIntPure(a)
BNCmp(a, b)      == BNCmpPure(a, b)
BNAdd(a, b)      == BNAddPure(a, b)
BNSub(a, b)      == BNSubPure(a, b)
BNMul(a, b)      == BNMulPure(a, b)
BNDivMod(a, b)   == BNDivModPure(a, b)
BNDiv(a, b)      == BNDivPure(a, b)
BNMod(a, m)      == BNModPure(a, m)
BNPowMod(a, e, m) == BNPowModPure(a, e, m)
BNShl(a, k)      == BNShlPure(a, k)
BNShr(a, k)      == BNShrPure(a, k)
BNLowBits(a, k)  == BNLowBitsPure(a, k)
BNBit(a, i)      == BNBitPure(a, i)
BNBitLen(a)      == BNBitLenPure(a)
BNAddMod(a, b, m) == BNModPure(BNAddPure(a, b), m)
BNSubMod(a, b, m) == BNModPure(BNSubPure(BNAddPure(BNModPure(a, m), m), BNModPure(b, m)), m)
BNMulMod(a, b, m) == BNModPure(BNMulPure(a, b), m)

-----------------------------------------------------------------------------
(* Derived operators (never overridden).                                    *)

BNLt(a, b) == BNCmp(a, b) < 0
BNLe(a, b) == BNCmp(a, b) <= 0
BNEq(a, b) == BNCmp(a, b) = 0
BNIsZero(a) == BNNorm(a) = <<>>
BNIsOdd(a)  == BNBit(a, 0) = 1
BNPow2(k)   == BNShl(<<1>>, k)

\* byte strings
BNFromBytes(s) == BNNorm(s)
\* the n low bytes of a, zero padded
BNToBytes(a, n) == [j \in 1..n |-> IF j <= Len(a) THEN a[j] ELSE 0]
BNFits(a, n)    == Len(BNNorm(a)) <= n

\* the set {0, ..., n-1} of BigNats for a small integer n (toy instances)
BNRange(n) == { BNOfInt(i) : i \in 0..(n - 1) }
=============================================================================
