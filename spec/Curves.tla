------------------------------- MODULE Curves -------------------------------
(***************************************************************************)
(* Parameter sets: the real edwards25519 constants, written from their     *)
(* definitions (RFC 7748 / RFC 8032), and the toy curves of the same shape *)
(* (P = 2^k - 19 = 5 mod 8, a = -1, D a non-square, cyclic group of order  *)
(* 8 * prime) on which TLC quantifies exhaustively.  Only BigNat is used,  *)
(* so that the modules parameterised by P, D, L, NB can be instantiated    *)
(* with these values from a .cfg file (CONSTANT P <- RealP ...).           *)
(***************************************************************************)
EXTENDS BigNat

RECURSIVE BNOfDigitsFrom(_, _, _)
BNOfDigitsFrom(ds, i, acc) == IF i > Len(ds) THEN acc
                              ELSE BNOfDigitsFrom(ds, i + 1, BNAdd(BNMul(acc, <<10>>), BNOfInt(ds[i])))
\* a decimal numeral, most significant digit first
BNOfDigits(ds) == BNOfDigitsFrom(ds, 1, <<>>)

\* ---------------- edwards25519 ----------------
RealP  == BNSub(BNPow2(255), BNOfInt(19))
RealNB == 32
\* d = -121665/121666
RealD  == BNMulMod(BNSub(RealP, BNOfInt(121665)),
                   BNPowMod(BNOfInt(121666), BNSub(RealP, BNOfInt(2)), RealP), RealP)
\* l = 2^252 + 27742317777372353535851937790883648493
RealL  == BNAdd(BNPow2(252), BNOfDigits(<<2,7,7,4,2,3,1,7,7,7,7,3,7,2,3,5,3,5,3,5,8,5,1,9,3,7,7,9,0,8,8,3,6,4,8,4,9,3>>))
\* RFC 8032 encoding of the base point B = (x, 4/5), x even
RealBEnc == <<88>> \o [i \in 1..31 |-> 102]

\* ---------------- toy curves ----------------
\* T29:   P = 29,          D = 3,  #E = 24  = 8 * 3     (no byte encoding)
\* T109:  P = 2^7 - 19,    D = 11, #E = 104 = 8 * 13,   NB = 1
\* T2029: P = 2^11 - 19,   D = 35, #E = 2056 = 8 * 257
\* T32749:P = 2^15 - 19,   D = 40, #E = 32888 = 8 * 4111, NB = 2
T29P == BNOfInt(29)       T29D == BNOfInt(3)      T29L == BNOfInt(3)      T29N == 29
T109P == BNOfInt(109)     T109D == BNOfInt(11)    T109L == BNOfInt(13)    T109N == 109
T2029P == BNOfInt(2029)   T2029D == BNOfInt(35)   T2029L == BNOfInt(257)  T2029N == 2029
T32749P == BNOfInt(32749) T32749D == BNOfInt(40)  T32749L == BNOfInt(4111) T32749N == 32749
\* toy scalar moduli (primes) with two-byte encodings: 2^12+15, 2^8+7, 2^15+3, 2^16-15, 2^8+1
ToyL_4111 == BNOfInt(4111)   ToyL_263 == BNOfInt(263)   ToyL_32771 == BNOfInt(32771)
ToyL_65521 == BNOfInt(65521) ToyL_257 == BNOfInt(257)
=============================================================================
