------------------------------ MODULE Edwards -------------------------------
(* All mathematical layers together: BigNat < GF < Group < Extended < Encoding, and Scalar. *)
EXTENDS Encoding, Scalar
=============================================================================
