------------------------------ MODULE Encoding ------------------------------
(***************************************************************************)
(* Byte encodings: RFC 8032 point encoding with the two documented         *)
(* laxities of the library's decoder, field-element encodings, and the     *)
(* RFC 7748 Montgomery u-coordinate / X25519 function.                     *)
(* A byte string is a sequence over 0..255.  NB is the encoding length in  *)
(* bytes: the field has 8*NB-1 bits and bit 8*NB-1 carries the sign of x.  *)
(***************************************************************************)
EXTENDS Extended

CONSTANT NB     \* bytes per field element / point (32; 1 or 2 on toy curves)

FBits == 8 * NB - 1

\* ---- field elements (properties C10) ----
FEncode(a)        == BNToBytes(a, NB)                       \* canonical: a < P
\* SetBytes: ignore the top bit, do NOT reject values >= P (they are taken mod P)
FDecodeRaw(s)     == BNLowBits(BNFromBytes(s), FBits)       \* in [0, 2^FBits)
FDecode(s)        == FRed(FDecodeRaw(s))
TopBit(s)         == s[NB] \div 128
\* SetWideBytes: 2*NB bytes, value mod P
FDecodeWide(s)    == FRed(BNFromBytes(s))

\* ---- points (properties C04, C05) ----
Encode(p) == LET e == FEncode(p.y)
             IN  [e EXCEPT ![NB] = e[NB] + 128 * FParity(p.x)]

\* x^2 = (y^2 - 1) / (D y^2 + 1)
DecU(y) == FSub(FSq(y), FOne)
DecV(y) == FAdd(FMul(D, FSq(y)), FOne)
\* accepted iff the right length and y is the ordinate of a curve point:
\* u/v is a square (or 0).  v # 0 because D is a non-square (-1/D is not a square).
DecodeOK(s) == /\ Len(s) = NB
               /\ LET y == FDecode(s) IN FIsSquare(FMul(DecU(y), DecV(y)))
\* is q the point that decoding s must produce?  (no square root is computed)
IsDecodeOf(q, s) ==
    LET y == FDecode(s) IN
    /\ q.y = y
    /\ OnCurve(q)
    /\ (q.x # FZero => FParity(q.x) = TopBit(s))
\* the algorithmic decoder of edwards25519.go (SqrtRatio + conditional negation)
DecodeAlg(s) ==
    LET y  == FDecode(s)
        sr == SqrtRatioAlg(DecU(y), DecV(y))
        x  == IF TopBit(s) = 1 THEN FNeg(sr[1]) ELSE sr[1]
    IN  [ok |-> sr[2] = 1, pt |-> Pt(x, y)]

\* ---- Montgomery (property C17) ----
\* u = (1+y)/(1-y), with 1/0 = 0 so that the identity maps to 0
MontU(p)       == FMul(FAdd(FOne, p.y), FInv(FSub(FOne, p.y)))
MontEncode(p)  == FEncode(MontU(p))

\* RFC 7748 section 5: X25519(k, u) with the Montgomery ladder.  A24 = (486662-2)/4.
A24 == FOfInt(121665)
ClampInt(s) ==      \* decodeScalar25519 on a 32-byte string
    LET t == [s EXCEPT ![1] = (s[1] \div 8) * 8, ![32] = (s[32] % 64) + 64]
    IN  BNFromBytes(t)
RECURSIVE Ladder(_, _, _, _, _, _, _, _)
Ladder(k, x1, x2, z2, x3, z3, swap, t) ==
    IF t < 0 THEN <<x2, z2, x3, z3, swap>>
    ELSE LET kt  == BNBit(k, t)
             sw  == (swap + kt) % 2
             ax2 == IF sw = 1 THEN x3 ELSE x2      az2 == IF sw = 1 THEN z3 ELSE z2
             ax3 == IF sw = 1 THEN x2 ELSE x3      az3 == IF sw = 1 THEN z2 ELSE z3
             A  == FAdd(ax2, az2)    AA == FSq(A)
             B  == FSub(ax2, az2)    BB == FSq(B)
             E  == FSub(AA, BB)
             C  == FAdd(ax3, az3)    DD == FSub(ax3, az3)
             DA == FMul(DD, A)       CB == FMul(C, B)
             nx3 == FSq(FAdd(DA, CB))
             nz3 == FMul(x1, FSq(FSub(DA, CB)))
             nx2 == FMul(AA, BB)
             nz2 == FMul(E, FAdd(AA, FMul(A24, E)))
         IN  Ladder(k, x1, nx2, nz2, nx3, nz3, kt, t - 1)
X25519(kbytes, u) ==
    LET k == ClampInt(kbytes)
        r == Ladder(k, u, FOne, FZero, u, FOne, 0, 254)
        x2 == IF r[5] = 1 THEN r[3] ELSE r[1]
        z2 == IF r[5] = 1 THEN r[4] ELSE r[2]
    IN  FEncode(FMul(x2, FInv(z2)))
=============================================================================
