------------------------------ MODULE Extended ------------------------------
(***************************************************************************)
(* The projective representations of edwards25519.go and the formulas the  *)
(* code evaluates on them, transcribed operation by operation, over field  *)
(* VALUES (limbs are the business of module Limbs).                        *)
(*                                                                         *)
(*   P3 (the exported Point):  (X:Y:Z:T), x = X/Z, y = Y/Z, xy = T/Z       *)
(*   P1xP1: ((X:Z),(Y:T)), x = X/Z, y = Y/T      P2: (X:Y:Z)               *)
(*   projCached: (Y+X, Y-X, Z, 2dT)     affineCached: (y+x, y-x, 2dxy)     *)
(*                                                                         *)
(* Refinement obligation (checked exhaustively on toy curves by            *)
(* MC_Extended): every formula maps valid representations to a valid       *)
(* representation of the point the affine group law of module Group gives. *)
(***************************************************************************)
EXTENDS Group

D2 == FAdd(D, D)

P3(X, Y, Z, T) == [X |-> X, Y |-> Y, Z |-> Z, T |-> T]

\* validity of an exported Point (property C12 / C13)
ValidP3(r) == /\ r.Z # FZero
              /\ FSub(FSq(r.Y), FSq(r.X)) = FAdd(FSq(r.Z), FMul(D, FSq(r.T)))
              /\ FMul(r.X, r.Y) = FMul(r.Z, r.T)
\* abstraction: the affine point a valid representation stands for
AbsP3(r) == LET zi == FInv(r.Z) IN Pt(FMul(r.X, zi), FMul(r.Y, zi))
\* does representation r stand for the affine point p?  (no inversion needed)
RepOf(r, p) == /\ ValidP3(r)
               /\ r.X = FMul(p.x, r.Z)
               /\ r.Y = FMul(p.y, r.Z)
\* two representations of the same point (cross multiplication)
SamePoint(r, s) == /\ FMul(r.X, s.Z) = FMul(s.X, r.Z)
                   /\ FMul(r.Y, s.Z) = FMul(s.Y, r.Z)

OfAffine(p)     == P3(p.x, p.y, FOne, FMul(p.x, p.y))
Rescale(r, lam) == P3(FMul(r.X, lam), FMul(r.Y, lam), FMul(r.Z, lam), FMul(r.T, lam))

-----------------------------------------------------------------------------
\* conversions (edwards25519.go)
CachedFromP3(p) == [YpX |-> FAdd(p.Y, p.X), YmX |-> FSub(p.Y, p.X), Z |-> p.Z, T2d |-> FMul(p.T, D2)]
AffCachedFromP3(p) ==
    LET iz == FInv(p.Z)
    IN  [YpX |-> FMul(FAdd(p.Y, p.X), iz), YmX |-> FMul(FSub(p.Y, p.X), iz), T2d |-> FMul(FMul(p.T, D2), iz)]
P2FromP3(p)      == [X |-> p.X, Y |-> p.Y, Z |-> p.Z]
P2FromP1xP1(p)   == [X |-> FMul(p.X, p.T), Y |-> FMul(p.Y, p.Z), Z |-> FMul(p.Z, p.T)]
P3FromP1xP1(p)   == P3(FMul(p.X, p.T), FMul(p.Y, p.Z), FMul(p.Z, p.T), FMul(p.X, p.Y))
P3FromP2(p)      == P3(FMul(p.X, p.Z), FMul(p.Y, p.Z), FSq(p.Z), FMul(p.X, p.Y))
P2Zero           == [X |-> FZero, Y |-> FOne, Z |-> FOne]
CachedZero       == [YpX |-> FOne, YmX |-> FOne, Z |-> FOne, T2d |-> FZero]
AffCachedZero    == [YpX |-> FOne, YmX |-> FOne, T2d |-> FZero]

\* (re)addition: projP1xP1.Add / Sub / AddAffine / SubAffine
P1Add(p, q) ==
    LET PP == FMul(FAdd(p.Y, p.X), q.YpX)   MM == FMul(FSub(p.Y, p.X), q.YmX)
        TT2d == FMul(p.T, q.T2d)            ZZ2 == LET z == FMul(p.Z, q.Z) IN FAdd(z, z)
    IN  [X |-> FSub(PP, MM), Y |-> FAdd(PP, MM), Z |-> FAdd(ZZ2, TT2d), T |-> FSub(ZZ2, TT2d)]
P1Sub(p, q) ==
    LET PP == FMul(FAdd(p.Y, p.X), q.YmX)   MM == FMul(FSub(p.Y, p.X), q.YpX)
        TT2d == FMul(p.T, q.T2d)            ZZ2 == LET z == FMul(p.Z, q.Z) IN FAdd(z, z)
    IN  [X |-> FSub(PP, MM), Y |-> FAdd(PP, MM), Z |-> FSub(ZZ2, TT2d), T |-> FAdd(ZZ2, TT2d)]
P1AddAffine(p, q) ==
    LET PP == FMul(FAdd(p.Y, p.X), q.YpX)   MM == FMul(FSub(p.Y, p.X), q.YmX)
        TT2d == FMul(p.T, q.T2d)            Z2 == FAdd(p.Z, p.Z)
    IN  [X |-> FSub(PP, MM), Y |-> FAdd(PP, MM), Z |-> FAdd(Z2, TT2d), T |-> FSub(Z2, TT2d)]
P1SubAffine(p, q) ==
    LET PP == FMul(FAdd(p.Y, p.X), q.YmX)   MM == FMul(FSub(p.Y, p.X), q.YpX)
        TT2d == FMul(p.T, q.T2d)            Z2 == FAdd(p.Z, p.Z)
    IN  [X |-> FSub(PP, MM), Y |-> FAdd(PP, MM), Z |-> FSub(Z2, TT2d), T |-> FAdd(Z2, TT2d)]
\* doubling: projP1xP1.Double(projP2)
P1Double(p) ==
    LET XX == FSq(p.X)  YY == FSq(p.Y)  ZZ2 == LET z == FSq(p.Z) IN FAdd(z, z)
        XpYsq == FSq(FAdd(p.X, p.Y))
        vY == FAdd(YY, XX)   vZ == FSub(YY, XX)
    IN  [X |-> FSub(XpYsq, vY), Y |-> vY, Z |-> vZ, T |-> FSub(ZZ2, vZ)]

CachedCondNeg(c, neg) == IF neg THEN [YpX |-> c.YmX, YmX |-> c.YpX, Z |-> c.Z, T2d |-> FNeg(c.T2d)] ELSE c
AffCachedCondNeg(c, neg) == IF neg THEN [YpX |-> c.YmX, YmX |-> c.YpX, T2d |-> FNeg(c.T2d)] ELSE c

-----------------------------------------------------------------------------
\* the exported point operations as the code composes them
XAdd(p, q)      == P3FromP1xP1(P1Add(p, CachedFromP3(q)))
XSub(p, q)      == P3FromP1xP1(P1Sub(p, CachedFromP3(q)))
XNeg(p)         == P3(FNeg(p.X), p.Y, p.Z, FNeg(p.T))
XDouble(p)      == P3FromP1xP1(P1Double(P2FromP3(p)))
XMultByCofactor(p) ==
    LET r1 == P1Double(P2FromP3(p))
        r2 == P1Double(P2FromP1xP1(r1))
        r3 == P1Double(P2FromP1xP1(r2))
    IN  P3FromP1xP1(r3)
XEqual(v, u)    == IF SamePoint(v, u) THEN 1 ELSE 0
XIdentity       == P3(FZero, FOne, FOne, FZero)

\* what a cached / P2 / P1xP1 value stands for (used by the refinement checks)
AbsP2(p)     == LET zi == FInv(p.Z) IN Pt(FMul(p.X, zi), FMul(p.Y, zi))
AbsP1xP1(p)  == Pt(FMul(p.X, FInv(p.Z)), FMul(p.Y, FInv(p.T)))
CachedRepOf(c, p) ==   \* c = (Y+X, Y-X, Z, 2dT) of some representation of p
    /\ c.Z # FZero
    /\ c.YpX = FMul(FAdd(p.y, p.x), c.Z)
    /\ c.YmX = FMul(FSub(p.y, p.x), c.Z)
    /\ c.T2d = FMul(FMul(D2, FMul(p.x, p.y)), c.Z)
AffCachedRepOf(c, p) ==
    /\ c.YpX = FAdd(p.y, p.x) /\ c.YmX = FSub(p.y, p.x) /\ c.T2d = FMul(D2, FMul(p.x, p.y))
=============================================================================
