-------------------------------- MODULE Fiat --------------------------------
(***************************************************************************)
(* A machine for the straight-line 64-bit word programs of scalar_fiat.go  *)
(* (the generated Montgomery arithmetic of the scalar field): the program  *)
(* is a constant (module FiatData, extracted from the working tree by      *)
(* harness/fiatx), executed as a fold over its instructions               *)
(*   mul  hi, lo = bits.Mul64(a, b)       add  s, c = bits.Add64(a, b, ci) *)
(*   sub  s, c  = bits.Sub64(a, b, ci)    cmov d = (c = 0 ? z : nz)        *)
(*   set  d = e                           out  out1[i] = e                 *)
(* over expressions (variables, argument words, literals, conversions      *)
(* uint64 / uint8 / Uint1, + & | ^ << >> * - and bitwise not).             *)
(* Two interpretations share the instruction semantics:                    *)
(*   - concrete: values are naturals (BigNat); every result is computed    *)
(*     over the naturals and then truncated as the Go type does;           *)
(*   - intervals: values are pairs <<lo, hi>> of naturals, sound for every *)
(*     concrete run whose arguments lie in the argument intervals.         *)
(* Obligations (recorded in `bad` with the instruction index): the things  *)
(* the generated code relies on and Go does not check --                   *)
(*   a wrapping "+" (or "*", "<<", "-") in an expression must not wrap,    *)
(*   a value converted to Uint1 must be 0 or 1.                            *)
(* The interval run proves them for ALL arguments in range (this is the    *)
(* bounds analysis fiat-crypto itself performs); a failing obligation is a *)
(* lead that bin/fiatlead.py tries to turn into concrete arguments, which  *)
(* are then given to the real code and judged by TraceApi.                 *)
(***************************************************************************)
EXTENDS BigNat, Sequences, Integers

W64     == BNPow2(64)
M64     == BNSub(W64, BNOne)
Lo64(x) == BNLowBits(x, 64)

\* bitwise operations on naturals below 2^64, by bit recursion (masks of the form 2^k - 1 take the short way)
RECURSIVE BitFold(_, _, _, _)
BitFold(x, y, i, f) ==      \* f = 1: and, 2: or, 3: xor
    IF i < 0 THEN BNZero
    ELSE LET bx == BNBit(x, i)  by == BNBit(y, i)
             b  == IF f = 1 THEN bx * by ELSE IF f = 2 THEN (IF bx + by > 0 THEN 1 ELSE 0) ELSE (bx + by) % 2
         IN  BNAdd(BNShl(BNOfInt(b), i), BitFold(x, y, i - 1, f))
IsMask(y)   == BNAdd(y, BNOne) = BNPow2(BNBitLen(y))
BNAnd(x, y) == IF IsMask(y) THEN BNLowBits(x, BNBitLen(y)) ELSE IF IsMask(x) THEN BNLowBits(y, BNBitLen(x)) ELSE BitFold(x, y, 63, 1)
BNOr(x, y)  == IF BNIsZero(x) THEN y ELSE IF BNIsZero(y) THEN x ELSE BitFold(x, y, 63, 2)
BNXor(x, y) == IF BNIsZero(x) THEN y ELSE IF BNIsZero(y) THEN x ELSE BitFold(x, y, 63, 3)

Bind(st, d, v) == IF d = "_" THEN st
                  ELSE [st EXCEPT !.env = [x \in DOMAIN st.env \cup {d} |-> IF x = d THEN v ELSE st.env[x]]]
Flag(st, what, pc) == [st EXCEPT !.bad = @ \cup {<<what, pc>>}]
FlagIf(st, c, what, pc) == IF c THEN Flag(st, what, pc) ELSE st

(***************************************************************************)
(* Concrete interpretation.                                                *)
(***************************************************************************)
RECURSIVE EV(_, _)
EV(e, st) ==
    CASE e.k = "var" -> IF e.n \in DOMAIN st.env THEN st.env[e.n] ELSE BNZero
      [] e.k = "arg" -> st.args[e.a][e.i + 1]
      [] e.k = "lit" -> e.v
      [] e.k = "u64" -> EV(e.e, st)
      [] e.k = "u8"  -> BNLowBits(EV(e.e, st), 8)
      [] e.k = "u1"  -> BNLowBits(EV(e.e, st), 1)
      [] e.k = "not" -> BNSub(M64, EV(e.e, st))
      [] e.k = "bin" ->
           LET l == EV(e.l, st)  r == EV(e.r, st) IN
           CASE e.o = "+"  -> Lo64(BNAdd(l, r))
             [] e.o = "*"  -> Lo64(BNMul(l, r))
             [] e.o = "-"  -> IF BNLe(r, l) THEN BNSub(l, r) ELSE BNSub(BNAdd(l, W64), r)
             [] e.o = "&"  -> BNAnd(l, r)
             [] e.o = "|"  -> BNOr(l, r)
             [] e.o = "^"  -> BNXor(l, r)
             [] e.o = "<<" -> Lo64(BNShl(l, BNToInt(r)))
             [] e.o = ">>" -> BNShr(l, BNToInt(r))
\* the obligations of an expression (set of names)
RECURSIVE EB(_, _)
EB(e, st) ==
    CASE e.k \in {"var", "arg", "lit"} -> {}
      [] e.k \in {"u64", "u8", "not"} -> EB(e.e, st)
      [] e.k = "u1"  -> EB(e.e, st) \cup (IF BNLt(BNOne, EV(e.e, st)) THEN {"Uint1 of a value above 1"} ELSE {})
      [] e.k = "bin" ->
           LET l == EV(e.l, st)  r == EV(e.r, st) IN
           EB(e.l, st) \cup EB(e.r, st) \cup
           (CASE e.o = "+"  -> IF BNLt(BNAdd(l, r), W64) THEN {} ELSE {"+ wraps"}
              [] e.o = "*"  -> IF BNLt(BNMul(l, r), W64) THEN {} ELSE {"* wraps"}
              [] e.o = "-"  -> IF BNLe(r, l) THEN {} ELSE {"- wraps"}
              [] e.o = "<<" -> IF BNLt(BNShl(l, BNToInt(r)), W64) THEN {} ELSE {"<< loses bits"}
              [] OTHER -> {})
Oblig(st, es, pc) == [st EXCEPT !.bad = @ \cup { <<w, pc>> : w \in UNION { EB(e, st) : e \in es } }]

FStep(st0, ins, pc) ==
    CASE ins.op = "mul" ->
           LET st == Oblig(st0, {ins.a, ins.b}, pc)  t == BNMul(EV(ins.a, st0), EV(ins.b, st0))
           IN  Bind(Bind(st, ins.hi, BNShr(t, 64)), ins.lo, Lo64(t))
      [] ins.op = "add" ->
           LET st == Oblig(st0, {ins.a, ins.b, ins.ci}, pc)  c == EV(ins.ci, st0)
               t == BNAdd(BNAdd(EV(ins.a, st0), EV(ins.b, st0)), c)
           IN  FlagIf(Bind(Bind(st, ins.s, Lo64(t)), ins.c, BNShr(t, 64)), BNLt(BNOne, c), "carry-in above 1", pc)
      [] ins.op = "sub" ->
           LET st == Oblig(st0, {ins.a, ins.b, ins.ci}, pc)  c == EV(ins.ci, st0)
               x == EV(ins.a, st0)  y == BNAdd(EV(ins.b, st0), c)
               under == BNLt(x, y)
               s == IF under THEN Lo64(BNSub(BNAdd(x, BNShl(W64, 1)), y)) ELSE BNSub(x, y)
           IN  FlagIf(Bind(Bind(st, ins.s, s), ins.c, IF under THEN BNOne ELSE BNZero), BNLt(BNOne, c), "borrow-in above 1", pc)
      [] ins.op = "cmov" ->
           LET st == Oblig(st0, {ins.c, ins.z, ins.nz}, pc)  c == EV(ins.c, st0)
           IN  FlagIf(Bind(st, ins.d, IF BNIsZero(c) THEN EV(ins.z, st0) ELSE EV(ins.nz, st0)), BNLt(BNOne, c), "condition above 1", pc)
      [] ins.op = "set" -> Bind(Oblig(st0, {ins.e}, pc), ins.d, EV(ins.e, st0))
      [] ins.op = "out" -> LET st == Oblig(st0, {ins.e}, pc)
                           IN [st EXCEPT !.out = [x \in DOMAIN st.out \cup {ins.i} |-> IF x = ins.i THEN EV(ins.e, st0) ELSE st.out[x]]]
      [] OTHER -> Flag(st0, "unknown instruction", pc)

RECURSIVE FExec(_, _, _)
FExec(prog, pc, st) == IF pc > Len(prog) THEN st ELSE FExec(prog, pc + 1, FStep(st, prog[pc], pc))
\* args: a function from argument names to sequences of values
FRun(prog, args) == FExec(prog, 1, [env |-> [x \in {} |-> BNZero], args |-> args, out |-> [x \in {} |-> BNZero], bad |-> {}])

\* the number a sequence of 64-bit words / of bytes stands for
RECURSIVE WordsVal(_, _, _)
WordsVal(f, n, bits) == IF n = 0 THEN BNZero ELSE BNAdd(BNShl(f[n - 1], bits * (n - 1)), WordsVal(f, n - 1, bits))
OutVal(st, n, bits)  == WordsVal(st.out, n, bits)
WordsOf(v, n, bits)  == [i \in 1..n |-> BNLowBits(BNShr(v, bits * (i - 1)), bits)]

(***************************************************************************)
(* Interval interpretation: a value is <<lo, hi>>.                         *)
(***************************************************************************)
Iv(lo, hi)  == <<lo, hi>>
IvC(v)      == <<v, v>>
IvFull      == <<BNZero, M64>>
BNMin(a, b) == IF BNLe(a, b) THEN a ELSE b
BNMax(a, b) == IF BNLe(a, b) THEN b ELSE a
Clamp(lo, hi) == IF BNLt(hi, W64) THEN <<lo, hi>> ELSE IvFull          \* the truncated result when the exact one may wrap
AllOnes(n)  == BNSub(BNPow2(n), BNOne)

RECURSIVE IV(_, _)
IV(e, st) ==
    CASE e.k = "var" -> IF e.n \in DOMAIN st.env THEN st.env[e.n] ELSE IvC(BNZero)
      [] e.k = "arg" -> st.args[e.a][e.i + 1]
      [] e.k = "lit" -> IvC(e.v)
      [] e.k = "u64" -> IV(e.e, st)
      [] e.k = "u8"  -> LET x == IV(e.e, st) IN IF BNLt(x[2], BNPow2(8)) THEN x ELSE <<BNZero, AllOnes(8)>>
      [] e.k = "u1"  -> LET x == IV(e.e, st) IN IF BNLe(x[2], BNOne) THEN x ELSE <<BNZero, BNOne>>
      [] e.k = "not" -> LET x == IV(e.e, st) IN <<BNSub(M64, x[2]), BNSub(M64, x[1])>>
      [] e.k = "bin" ->
           LET l == IV(e.l, st)  r == IV(e.r, st) IN
           CASE e.o = "+"  -> Clamp(BNAdd(l[1], r[1]), BNAdd(l[2], r[2]))
             [] e.o = "*"  -> Clamp(BNMul(l[1], r[1]), BNMul(l[2], r[2]))
             [] e.o = "-"  -> IF BNLe(r[2], l[1]) THEN <<BNSub(l[1], r[2]), BNSub(l[2], r[1])>> ELSE IvFull
             [] e.o = "&"  -> <<BNZero, BNMin(l[2], r[2])>>
             [] e.o \in {"|", "^"} -> <<IF e.o = "|" THEN BNMax(l[1], r[1]) ELSE BNZero, AllOnes(IF BNBitLen(l[2]) > BNBitLen(r[2]) THEN BNBitLen(l[2]) ELSE BNBitLen(r[2]))>>
             [] e.o = "<<" -> IF r[1] = r[2] THEN Clamp(BNShl(l[1], BNToInt(r[1])), BNShl(l[2], BNToInt(r[1]))) ELSE IvFull
             [] e.o = ">>" -> IF r[1] = r[2] THEN <<BNShr(l[1], BNToInt(r[1])), BNShr(l[2], BNToInt(r[1]))>> ELSE <<BNZero, l[2]>>
RECURSIVE IB(_, _)
IB(e, st) ==
    CASE e.k \in {"var", "arg", "lit"} -> {}
      [] e.k \in {"u64", "u8", "not"} -> IB(e.e, st)
      [] e.k = "u1"  -> IB(e.e, st) \cup (IF BNLt(BNOne, IV(e.e, st)[2]) THEN {"Uint1 of a value above 1"} ELSE {})
      [] e.k = "bin" ->
           LET l == IV(e.l, st)  r == IV(e.r, st) IN
           IB(e.l, st) \cup IB(e.r, st) \cup
           (CASE e.o = "+"  -> IF BNLt(BNAdd(l[2], r[2]), W64) THEN {} ELSE {"+ wraps"}
              [] e.o = "*"  -> IF BNLt(BNMul(l[2], r[2]), W64) THEN {} ELSE {"* wraps"}
              [] e.o = "-"  -> IF BNLe(r[2], l[1]) THEN {} ELSE {"- wraps"}
              [] e.o = "<<" -> IF r[1] = r[2] /\ BNLt(BNShl(l[2], BNToInt(r[1])), W64) THEN {} ELSE {"<< loses bits"}
              [] OTHER -> {})
IOblig(st, es, pc) == [st EXCEPT !.bad = @ \cup { <<w, pc>> : w \in UNION { IB(e, st) : e \in es } }]

IStep(st0, ins, pc) ==
    CASE ins.op = "mul" ->
           LET st == IOblig(st0, {ins.a, ins.b}, pc)  x == IV(ins.a, st0)  y == IV(ins.b, st0)
               lo == BNMul(x[1], y[1])  hi == BNMul(x[2], y[2])
           IN  Bind(Bind(st, ins.hi, <<BNShr(lo, 64), BNShr(hi, 64)>>), ins.lo, Clamp(lo, hi))
      [] ins.op = "add" ->
           LET st == IOblig(st0, {ins.a, ins.b, ins.ci}, pc)  x == IV(ins.a, st0)  y == IV(ins.b, st0)  c == IV(ins.ci, st0)
               lo == BNAdd(BNAdd(x[1], y[1]), c[1])  hi == BNAdd(BNAdd(x[2], y[2]), c[2])
               s  == IF BNShr(lo, 64) = BNShr(hi, 64) THEN <<Lo64(lo), Lo64(hi)>> ELSE IvFull
           IN  FlagIf(Bind(Bind(st, ins.s, s), ins.c, <<BNShr(lo, 64), BNShr(hi, 64)>>), BNLt(BNOne, c[2]), "carry-in above 1", pc)
      [] ins.op = "sub" ->
           LET st == IOblig(st0, {ins.a, ins.b, ins.ci}, pc)  x == IV(ins.a, st0)  y == IV(ins.b, st0)  c == IV(ins.ci, st0)
               ylo == BNAdd(y[1], c[1])  yhi == BNAdd(y[2], c[2])
               never  == BNLe(yhi, x[1])          \* never borrows
               always == BNLt(x[2], ylo)          \* always borrows
               s == IF never THEN <<BNSub(x[1], yhi), BNSub(x[2], ylo)>> ELSE IvFull
               b == IF never THEN IvC(BNZero) ELSE IF always THEN IvC(BNOne) ELSE <<BNZero, BNOne>>
           IN  FlagIf(Bind(Bind(st, ins.s, s), ins.c, b), BNLt(BNOne, c[2]), "borrow-in above 1", pc)
      [] ins.op = "cmov" ->
           LET st == IOblig(st0, {ins.c, ins.z, ins.nz}, pc)  c == IV(ins.c, st0)  z == IV(ins.z, st0)  nz == IV(ins.nz, st0)
               v == IF BNIsZero(c[2]) THEN z ELSE IF ~BNIsZero(c[1]) THEN nz ELSE <<BNMin(z[1], nz[1]), BNMax(z[2], nz[2])>>
           IN  FlagIf(Bind(st, ins.d, v), BNLt(BNOne, c[2]), "condition above 1", pc)
      [] ins.op = "set" -> Bind(IOblig(st0, {ins.e}, pc), ins.d, IV(ins.e, st0))
      [] ins.op = "out" -> LET st == IOblig(st0, {ins.e}, pc)
                           IN [st EXCEPT !.out = [x \in DOMAIN st.out \cup {ins.i} |-> IF x = ins.i THEN IV(ins.e, st0) ELSE st.out[x]]]
      [] OTHER -> Flag(st0, "unknown instruction", pc)

RECURSIVE IExec(_, _, _)
IExec(prog, pc, st) == IF pc > Len(prog) THEN st ELSE IExec(prog, pc + 1, IStep(st, prog[pc], pc))
IRun(prog, args) == IExec(prog, 1, [env |-> [x \in {} |-> IvC(BNZero)], args |-> args, out |-> [x \in {} |-> IvC(BNZero)], bad |-> {}])
=============================================================================
