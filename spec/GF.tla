--------------------------------- MODULE GF ---------------------------------
(***************************************************************************)
(* The prime field GF(P), P = 5 (mod 8), as used by the library            *)
(* (P = 2^255 - 19) and by the toy instances (29, 109, 2029, 32749).       *)
(* Field values are BigNats in [0, P).                                     *)
(***************************************************************************)
EXTENDS BigNat

CONSTANT P      \* the field prime, a BigNat

FZero == BNZero
FOne  == BNOne
FTwo  == BNOfInt(2)

FIsElem(a)  == BNIsNat(a) /\ BNLt(a, P)
FRed(n)     == BNMod(n, P)              \* any natural -> its residue
FAdd(a, b)  == BNAddMod(a, b, P)
FSub(a, b)  == BNSubMod(a, b, P)
FNeg(a)     == BNSubMod(BNZero, a, P)
FMul(a, b)  == BNMulMod(a, b, P)
FSq(a)      == BNMulMod(a, a, P)
FPow(a, e)  == BNPowMod(a, e, P)
FOfInt(n)   == FRed(BNOfInt(n))

PMinus1 == BNSub(P, BNOne)
PMinus2 == BNSub(P, BNOfInt(2))
\* the library's convention: 0 has inverse 0  (a^(P-2))
FInv(a)    == FPow(a, PMinus2)
FDiv(a, b) == FMul(a, FInv(b))

\* Euler criterion: a^((P-1)/2) is 0 (a = 0), 1 (non-zero square) or P-1
FEuler(a)     == FPow(a, BNShr(PMinus1, 1))
FIsSquare(a)  == LET e == FEuler(a) IN e = FZero \/ e = FOne      \* 0 counts as a square
FIsNonZeroSquare(a) == FEuler(a) = FOne

\* "negative" in the sense of RFC 8032 / ristretto: the reduced value is odd
FIsNegative(a) == BNBit(a, 0) = 1
FParity(a)     == BNBit(a, 0)
FAbs(a)        == IF FIsNegative(a) THEN FNeg(a) ELSE a

\* sqrt(-1) = 2^((P-1)/4)   (P = 5 mod 8 makes 2 a non-residue)
SqrtM1 == FPow(FTwo, BNShr(PMinus1, 2))
\* the exponent (P-5)/8 of the candidate-root computation
P58 == BNShr(BNSub(P, BNOfInt(5)), 3)

(***************************************************************************)
(* SQRT_RATIO_M1, the algorithm of field/fe.go (ristretto255 draft 4.3):   *)
(* returns <<r, wasSquare>>.                                               *)
(***************************************************************************)
SqrtRatioAlg(u, v) ==
    LET v2   == FSq(v)
        uv3  == FMul(u, FMul(v2, v))
        uv7  == FMul(uv3, FSq(v2))
        rr   == FMul(uv3, FPow(uv7, P58))
        chk  == FMul(v, FSq(rr))
        uNeg == FNeg(u)
        correctSign  == chk = u
        flippedSign  == chk = uNeg
        flippedSignI == chk = FMul(uNeg, SqrtM1)
        r2   == IF flippedSign \/ flippedSignI THEN FMul(rr, SqrtM1) ELSE rr
    IN  << FAbs(r2), IF correctSign \/ flippedSign THEN 1 ELSE 0 >>

(***************************************************************************)
(* The declarative contract (property C16).  It does not compute a root:   *)
(* it says what a pair (r, ws) returned for (u, v) must satisfy.           *)
(***************************************************************************)
SqrtRatioContract(u, v, r, ws) ==
    /\ FIsElem(r) /\ ws \in {0, 1}
    /\ ~FIsNegative(r)
    /\ IF u = FZero THEN r = FZero /\ ws = 1
       ELSE IF v = FZero THEN r = FZero /\ ws = 0
       ELSE IF FIsSquare(FMul(u, v))                     \* u/v square  <=>  u*v square
            THEN ws = 1 /\ FMul(v, FSq(r)) = u
            ELSE ws = 0 /\ FMul(v, FSq(r)) = FMul(SqrtM1, u)

\* all elements of a toy field
FAll(n) == BNRange(n)
=============================================================================
