------------------------------- MODULE Group --------------------------------
(***************************************************************************)
(* The twisted Edwards curve  -x^2 + y^2 = 1 + D x^2 y^2  over GF(P) and   *)
(* its (complete, because D is a non-square and -1 is a square) group law, *)
(* in affine coordinates.  This is the definition the other layers and the *)
(* implementation are compared with; nothing here is derived from code.    *)
(***************************************************************************)
EXTENDS GF

CONSTANT D      \* curve constant, a field element (non-square)

Pt(x, y)   == [x |-> x, y |-> y]
Identity   == Pt(FZero, FOne)
IsPoint(p) == FIsElem(p.x) /\ FIsElem(p.y)

OnCurve(p) == LET xx == FSq(p.x)  yy == FSq(p.y)
              IN  FSub(yy, xx) = FAdd(FOne, FMul(D, FMul(xx, yy)))

\* the denominators 1 +- D x1 x2 y1 y2 (never zero on the curve: completeness)
EDenPlus(p, q)  == FAdd(FOne, FMul(D, FMul(FMul(p.x, q.x), FMul(p.y, q.y))))
EDenMinus(p, q) == FSub(FOne, FMul(D, FMul(FMul(p.x, q.x), FMul(p.y, q.y))))

\* (x1,y1)+(x2,y2) = ( (x1 y2 + y1 x2)/(1 + D x1x2y1y2), (y1 y2 + x1 x2)/(1 - D x1x2y1y2) )   [a = -1]
EAdd(p, q) == Pt(FDiv(FAdd(FMul(p.x, q.y), FMul(p.y, q.x)), EDenPlus(p, q)),
                 FDiv(FAdd(FMul(p.y, q.y), FMul(p.x, q.x)), EDenMinus(p, q)))
ENeg(p)    == Pt(FNeg(p.x), p.y)
ESub(p, q) == EAdd(p, ENeg(q))
EDbl(p)    == EAdd(p, p)

\* [k]p for a BigNat k: most significant bit first double-and-add
RECURSIVE EMulFrom(_, _, _, _)
EMulFrom(k, p, i, acc) ==
    IF i < 0 THEN acc
    ELSE LET d == EDbl(acc)
         IN  EMulFrom(k, p, i - 1, IF BNBit(k, i) = 1 THEN EAdd(d, p) ELSE d)
EMul(k, p) == EMulFrom(k, p, BNBitLen(k) - 1, Identity)

EMul8(p) == EDbl(EDbl(EDbl(p)))

\* sum of [ks[i]] ps[i]
RECURSIVE EMSum(_, _, _)
EMSum(ks, ps, i) == IF i > Len(ks) THEN Identity
                    ELSE EAdd(EMul(ks[i], ps[i]), EMSum(ks, ps, i + 1))

\* the smallest n in 1..bound with [n]p = identity (toy instances / torsion only)
RECURSIVE EOrderFrom(_, _, _, _)
EOrderFrom(p, acc, n, bound) == IF acc = Identity \/ n >= bound THEN n
                                ELSE EOrderFrom(p, EAdd(acc, p), n + 1, bound)
EOrder(p, bound) == EOrderFrom(p, p, 1, bound)
=============================================================================
