-------------------------------- MODULE Leak --------------------------------
(***************************************************************************)
(* Observation semantics (property C03) of the recoding / table-selection  *)
(* skeleton of the multiplication algorithms, and the noninterference      *)
(* statement "the observation sequence is a function of public parameters  *)
(* only".  Observations: for every loop the trip count, for every table    *)
(* access the index, for every branch the outcome.  Field arithmetic has   *)
(* no observations at this level (straight-line limb code; its Go source   *)
(* is checked by the instrumented runs, its assembly by module Asm).       *)
(*                                                                         *)
(*  CT selection (tables.go SelectInto): scans entries 1..8 for every      *)
(*  digit; the conditional negation is a masked swap: no observation       *)
(*  depends on the digit.                                                  *)
(*  Named deviations: BUG_Select_DirectIndex  dest = points[|x|-1];        *)
(*                    BUG_SkipZeroDigits      if digit == 0 { continue }   *)
(*  The variable-time algorithms (NAF) are modelled too: they MUST fail    *)
(*  the noninterference check (sanity of the observation model).           *)
(***************************************************************************)
EXTENDS Recode, TLC
CONSTANTS BUG_Select_DirectIndex, BUG_SkipZeroDigits, NBYTES

Abs(x) == IF x < 0 THEN 0 - x ELSE x
ObsSelect(x) == IF BUG_Select_DirectIndex THEN <<<<"index", Abs(x)>>>>
                ELSE [j \in 1..8 |-> <<"index", j>>]
ObsDigit(x) == IF BUG_SkipZeroDigits /\ x = 0 THEN <<<<"branch", "skip">>>>
               ELSE (IF BUG_SkipZeroDigits THEN <<<<"branch", "take">>>> ELSE <<>>) \o ObsSelect(x) \o <<<<"add">>>>
RECURSIVE ObsDigits(_, _)
ObsDigits(d, i) == IF i < 1 THEN <<>> ELSE ObsDigit(d[i]) \o <<<<"double4">>>> \o ObsDigits(d, i - 1)
\* ScalarMult / MultiScalarMult / ScalarBaseMult share this skeleton: recode (straight-line), then one selection per digit
ObsConstTime(kbytes) == LET d == Radix16Alg(kbytes) IN <<<<"trip", Len(d)>>>> \o ObsDigits(d, Len(d))

\* the variable-time skeleton: branch on the sign of every NAF digit, direct table index
RECURSIVE ObsNaf(_, _)
ObsNaf(naf, i) == IF i < 1 THEN <<>>
                  ELSE (IF naf[i] > 0 THEN <<<<"branch", "pos">>, <<"index", naf[i] \div 2>>>>
                        ELSE IF naf[i] < 0 THEN <<<<"branch", "neg">>, <<"index", (0 - naf[i]) \div 2>>>>
                        ELSE <<<<"branch", "zero">>>>) \o ObsNaf(naf, i - 1)
ObsVarTime(k) == ObsNaf(NafAlg(k, 5, 8, NBYTES), 8 * NBYTES)
=============================================================================
