----------------------------- MODULE LimbBounds -----------------------------
(***************************************************************************)
(* Interval analysis of the limb representation (properties C09, C20):     *)
(* a vector B of upper bounds (one per limb) is CLOSED when every public   *)
(* field operation applied to operands whose limbs are <= B returns limbs  *)
(* <= B, and SAFE when, for all such operands, every intermediate fits the *)
(* machine word it is computed in and Subtract never underflows.           *)
(* Every bound function below is monotone in its operand bounds, so the    *)
(* statements hold for ALL limb vectors below B, not only for the corners. *)
(* BStar is the least fixpoint above the bounds of freshly decoded         *)
(* elements: the closed bound of the representation invariant.             *)
(***************************************************************************)
EXTENDS Limbs

CONSTANT YMAX      \* the largest Mult32 multiplier (2^32 - 1)

Max(a, b) == IF BNLe(a, b) THEN b ELSE a
Join(A, B) == [i \in 1..NL |-> Max(A[i], B[i])]
Cap(x)     == IF BNLe(x, Mask) THEN x ELSE Mask            \* the low W bits of something <= x are <= min(x, Mask)

UBCarry(U) == [i \in 1..NL |-> BNAdd(Cap(U[i]), IF i = 1 THEN BNMul(BNOfInt(CF), BNShr(U[NL], W)) ELSE BNShr(U[i - 1], W))]
UBAdd(A, B)  == UBCarry([i \in 1..NL |-> BNAdd(A[i], B[i])])
UBSub(A, B)  == UBCarry([i \in 1..NL |-> BNAdd(A[i], TwoP(i))])           \* b = 0 is the worst case
UBCols(A, B) == Cols(A, B)                                                \* sums of products: monotone
UBWide(R)    == [k \in 1..NL |-> BNAdd(Cap(R[k]), IF k = 1 THEN BNMul(BNOfInt(CF), BNShr(R[NL], W)) ELSE BNShr(R[k - 1], W))]
UBMul(A, B)  == UBCarry(UBWide(UBCols(A, B)))
UBMulSmall(A) == [i \in 1..NL |-> BNAdd(Mask, IF i = 1 THEN BNMul(BNOfInt(CF), BNShr(BNMul(A[NL], YMAX), W))
                                               ELSE BNShr(BNMul(A[i - 1], YMAX), W))]
UBFresh      == [i \in 1..NL |-> Mask]                                    \* SetBytes, Zero, One, reduce
UBWideBytes  == UBCarry([i \in 1..NL |-> BNAdd(BNAdd(Mask, BNMul(BNOfInt(2 * CF), Mask)),
                                                IF i = 1 THEN BNOfInt(CF + 2 * CF * CF) ELSE BNZero)])

\* one round: the join of the bounds of every operation on operands <= B (Select, Swap, Set, Negate=Sub(0,.), Absolute,
\* Invert / Pow22523 / SqrtRatio (compositions of Multiply, Square, Select) add nothing new)
Step(B) == Join(B, Join(UBFresh, Join(UBWideBytes, Join(UBAdd(B, B), Join(UBSub(B, B), Join(UBMul(B, B), UBMulSmall(B)))))))
RECURSIVE Fix(_, _)
Fix(B, n) == IF n = 0 \/ Step(B) = B THEN B ELSE Fix(Step(B), n - 1)
BStar == Fix(UBFresh, 64)

\* ---- safety obligations for all operands <= B ----------------------------
SafeAdd(B)  == \A i \in 1..NL : Fits(BNAdd(B[i], B[i]), WORD)
SafeSub(B)  == /\ \A i \in 1..NL : BNLe(B[i], TwoP(i))                                   \* no underflow: b_i <= 2p_i + a_i, a_i >= 0
               /\ \A i \in 1..NL : Fits(BNAdd(B[i], TwoP(i)), WORD)
SafeMul(B)  == MulFits(B, B)
\* feSquareGeneric precomputes 2*l, 19*l, 38*l in single words and sums three products per column: same column bound
SafeSquare(B) == \A i \in 1..NL : Fits(BNMul(BNOfInt(2 * CF), B[i]), WORD) /\ Fits(BNMul(BNOfInt(2), B[i]), WORD)
SafeMulSmall(B) == MulSmallFits(B, YMAX)
SafeCarry(B) == \A i \in 1..NL : Fits(UBCarry(B)[i], WORD)
\* reduce subtracts p at most once: after one carry propagation the integer is below 2p
SafeReduce(B) == BNLt(Val(UBCarry(B)), BNMul(BNOfInt(2), LP))
Safe(B) == SafeAdd(B) /\ SafeSub(B) /\ SafeMul(B) /\ SafeSquare(B) /\ SafeMulSmall(B) /\ SafeCarry(B) /\ SafeReduce(B)
Closed(B) == Step(B) = B
=============================================================================
