-------------------------------- MODULE Limbs -------------------------------
(***************************************************************************)
(* The unsaturated limb representation of field/fe.go and fe_generic.go,   *)
(* parametric in the limb width W, the limb count NL, the folding constant *)
(* CF (the prime is 2^(W*NL) - CF) and the machine word size WORD:         *)
(*   edwards25519:  W = 51, NL = 5, CF = 19, WORD = 64                     *)
(*   toy instances: W = 3, NL = 2, CF = 3 (61); W = 3, NL = 3 (509); ...   *)
(* A limb vector is a sequence of NL naturals (BigNats).  Every operation  *)
(* is transcribed from the Go code; all intermediates are computed over    *)
(* the naturals and the operators "...Fits" say whether each of them fits  *)
(* the machine word it lives in (limbs, carries: WORD bits; the column     *)
(* accumulators of the multiplication: 2*WORD bits, and at most            *)
(* 2*WORD - (WORD - W) bits where shiftRightBy51 is applied).              *)
(* Refinement obligation (MC_Limbs, exhaustive on toy instances):          *)
(*   Val(op(a, b)) = op(Val a, Val b)  (mod P)   for all limb vectors      *)
(*   below the bound, and the result is below the bound again.             *)
(***************************************************************************)
EXTENDS BigNat

CONSTANTS W, NL, CF, WORD,
          BIAS        \* Subtract adds BIAS * p before subtracting (2 in the code; 1 is the named deviation "bias p")

LP       == BNSub(BNPow2(W * NL), BNOfInt(CF))            \* the prime
Mask     == BNSub(BNPow2(W), BNOne)
Fits(x, bits) == BNBitLen(x) <= bits

RECURSIVE LVal(_, _)
LVal(v, i) == IF i > NL THEN BNZero ELSE BNAdd(BNShl(v[i], W * (i - 1)), LVal(v, i + 1))
Val(v)    == LVal(v, 1)                                    \* the integer a limb vector stands for
ValP(v)   == BNMod(Val(v), LP)                             \* the field value

OfVal(n)  == [i \in 1..NL |-> BNLowBits(BNShr(n, W * (i - 1)), W)]     \* canonical limbs of n < 2^(W NL)

\* carryPropagateGeneric: every limb keeps its low W bits and receives the carry of the limb below; the top carry is
\* multiplied by CF and added to limb 1
CarryProp(v) == [i \in 1..NL |-> BNAdd(BNLowBits(v[i], W),
                                      IF i = 1 THEN BNMul(BNOfInt(CF), BNShr(v[NL], W)) ELSE BNShr(v[i - 1], W))]

\* reduce: carry propagate, then conditionally subtract p (exactly as fe.go: c chain with +CF, then a full carry chain)
RECURSIVE ReduceC(_, _, _)
ReduceC(v, i, c) == IF i > NL THEN c ELSE ReduceC(v, i + 1, BNShr(BNAdd(v[i], c), W))
RECURSIVE ReduceChain(_, _, _)
ReduceChain(v, i, carry) ==        \* v[i] += carry; carry' = v[i] >> W; v[i] &= mask   (the last carry is dropped)
    IF i > NL THEN <<>>
    ELSE LET t == BNAdd(v[i], carry) IN <<BNLowBits(t, W)>> \o ReduceChain(v, i + 1, BNShr(t, W))
Reduce(v) == LET u == CarryProp(v)
                 c == ReduceC(u, 1, BNOfInt(CF))                          \* 1 iff u >= p
             IN  ReduceChain(u, 1, BNMul(BNOfInt(CF), c))

LAdd(a, b) == CarryProp([i \in 1..NL |-> BNAdd(a[i], b[i])])
\* 2p in limb form: (2^(W+1) - 2 CF, 2^(W+1) - 2, ...)
TwoP(i)    == IF i = 1 THEN BNMul(BNOfInt(BIAS), BNSub(BNPow2(W), BNOfInt(CF))) ELSE BNMul(BNOfInt(BIAS), BNSub(BNPow2(W), BNOne))
SubNoUnderflow(a, b) == \A i \in 1..NL : BNLe(b[i], BNAdd(a[i], TwoP(i)))
LSub(a, b) == CarryProp([i \in 1..NL |-> BNSub(BNAdd(a[i], TwoP(i)), b[i])])
LZero      == [i \in 1..NL |-> BNZero]
LNeg(a)    == LSub(LZero, a)

\* feMulGeneric: column sums with the CF-folding, then the wide carry step, then carryPropagate
\* column k (1-based) = sum_{i+j = k+1} a_i b_j  +  CF * sum_{i+j = k+1+NL} a_i b_j
RECURSIVE ColSum(_, _, _, _)
ColSum(a, b, k, i) ==
    IF i > NL THEN BNZero
    ELSE LET j1 == k + 1 - i             \* no wrap
             j2 == k + 1 + NL - i        \* wrapped: multiplied by CF
             t1 == IF j1 >= 1 /\ j1 <= NL THEN BNMul(a[i], b[j1]) ELSE BNZero
             t2 == IF j2 >= 1 /\ j2 <= NL THEN BNMul(BNMul(BNOfInt(CF), a[i]), b[j2]) ELSE BNZero
         IN  BNAdd(BNAdd(t1, t2), ColSum(a, b, k, i + 1))
Cols(a, b)  == [k \in 1..NL |-> ColSum(a, b, k, 1)]
WideCarry(r) == [k \in 1..NL |-> BNAdd(BNLowBits(r[k], W),
                                      IF k = 1 THEN BNMul(BNOfInt(CF), BNShr(r[NL], W)) ELSE BNShr(r[k - 1], W))]
LMul(a, b)  == CarryProp(WideCarry(Cols(a, b)))
LSquare(a)  == LMul(a, a)
\* the machine-word obligations of the multiplication for operands a, b
MulFits(a, b) ==
    LET r == Cols(a, b)  rr == WideCarry(r) IN
    /\ \A i \in 1..NL : Fits(BNMul(BNOfInt(CF), a[i]), WORD)                   \* a_i * 19 in a word
    /\ \A k \in 1..NL : Fits(r[k], 2 * WORD - (WORD - W))                      \* shiftRightBy51: at most 115 bits
    /\ \A k \in 1..NL : Fits(BNShr(r[k], W), WORD)                             \* the carries c_k
    /\ Fits(BNMul(BNOfInt(CF), BNShr(r[NL], W)), WORD)                         \* c4 * 19
    /\ \A k \in 1..NL : Fits(rr[k], WORD)

\* Mult32: per-limb product split at W bits (mul51), hi parts moved one limb up, the top one folded with CF; no carry
LMulSmall(a, y) ==
    [i \in 1..NL |-> BNAdd(BNLowBits(BNMul(a[i], y), W),
                           IF i = 1 THEN BNMul(BNOfInt(CF), BNShr(BNMul(a[NL], y), W)) ELSE BNShr(BNMul(a[i - 1], y), W))]
MulSmallFits(a, y) == \A i \in 1..NL : Fits(BNMul(a[i], y), 2 * WORD) /\ Fits(BNShr(BNMul(a[i], y), W), WORD)
                                        /\ Fits(LMulSmall(a, y)[i], WORD)

\* encodings: SetBytes takes the low W*NL bits, limb by limb; Bytes is the reduced value
LSetBytes(n) == OfVal(BNLowBits(n, W * NL))
LBytesVal(v) == Val(Reduce(v))
\* SetWideBytes: lo + loMSB*CF + hi*2*CF + hiMSB*2*CF^2  (for a 2*NB byte string split in two halves with a spare top bit each)
LSetWide(lo, loMSB, hi, hiMSB) ==
    CarryProp([i \in 1..NL |-> BNAdd(BNAdd(lo[i], BNMul(BNOfInt(2 * CF), hi[i])),
                                     IF i = 1 THEN BNOfInt(loMSB * CF + hiMSB * 2 * CF * CF) ELSE BNZero)])

\* a limb vector is within the vector of bounds B (inclusive)
Within(v, B) == \A i \in 1..NL : BNLe(v[i], B[i])
=============================================================================
