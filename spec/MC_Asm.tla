-------------------------------- MODULE MC_Asm ------------------------------
(***************************************************************************)
(* The assembly routines of the working tree (AsmData), executed by the    *)
(* machine of module Asm at the REAL parameters on limb vectors at the     *)
(* corners of the closed bound BStar (and below): for feMul / feSquare the *)
(* output must be limb for limb what the portable algorithm of module      *)
(* Limbs computes (hence the right value mod p, within BStar: C20), no     *)
(* obligation of the machine may be violated (no lost carry, no overflow   *)
(* of an accumulator, every address = argument pointer + constant: C03);   *)
(* for the arm64 carryPropagate the output must equal CarryProp for inputs *)
(* up to the full 64-bit range.                                            *)
(***************************************************************************)
EXTENDS Asm, LimbBounds, AsmData, TLC, FiniteSets
Y32 == BNSub(BNPow2(32), BNOne)
CONSTANTS FULL, DRIFT
VARIABLES a, b, ph, bs
Lv(B, i) == IF FULL THEN {BNZero, BNOne, Mask, BNPow2(W), B[i], BNSub(B[i], BNOne)} ELSE {BNZero, Mask, B[i]}
VecsA(B) == { <<x1, x2, x3, x4, x5>> : x1 \in Lv(B, 1), x2 \in Lv(B, 2), x3 \in Lv(B, 3), x4 \in Lv(B, 4), x5 \in Lv(B, 5) }
VecsB(B) == { <<x1, x2, x3, x4, x5>> : x1 \in {BNZero, B[1]}, x2 \in {BNOne, B[2]}, x3 \in {Mask, B[3]}, x4 \in {BNZero, B[4]}, x5 \in {BNZero, B[5]} }
               \cup { [i \in 1..5 |-> B[i]], [i \in 1..5 |-> Mask], LZero }
\* inputs of carryPropagate: sums and differences before the carry, up to the whole 64-bit range
Big == {BNZero, Mask, BNPow2(W), BNSub(BNPow2(63), BNOne), BNSub(BNPow2(64), BNOne)}
VecsC == { <<x1, x2, x3, x4, x5>> : x1 \in Big, x2 \in Big, x3 \in Big, x4 \in Big, x5 \in Big }

Init == bs = BStar /\ a \in (VecsA(bs) \cup (IF AsmCarryPropagate # <<>> THEN VecsC ELSE {})) /\ b = LZero /\ ph = 0
Next == ph = 0 /\ ph' = 1 /\ b' \in VecsB(bs) /\ UNCHANGED <<a, bs>>

MulOK == LET st == Run(AsmFeMul, <<"out", "a", "b">>, <<LZero, a, b>>)  out == st.mem[1] IN
         /\ st.bad = {}
         /\ (DRIFT => out = LMul(a, b))                                      \* limb for limb the portable algorithm (informational)
         /\ ValP(out) = BNMod(BNMul(Val(a), Val(b)), LP) /\ Within(out, bs)
         /\ st.mem[2] = a /\ st.mem[3] = b                                   \* the operands are only read
\* out may alias the operand: the routine reads everything before it stores
SqOK  == LET st == Run(AsmFeSquare, <<"out", "a">>, <<LZero, a>>)  out == st.mem[1] IN
         /\ st.bad = {}
         /\ (DRIFT => out = LSquare(a))
         /\ ValP(out) = BNMod(BNMul(Val(a), Val(a)), LP) /\ Within(out, bs)
CpOK  == LET st == Run(AsmCarryPropagate, <<"v">>, <<a>>) IN
         /\ st.bad = {} /\ st.mem[1] = CarryProp(a)

InvMul == (ph = 1 /\ AsmFeMul # <<>> /\ Within(a, bs)) => MulOK
InvSq  == (ph = 1 /\ AsmFeSquare # <<>> /\ b = LZero /\ Within(a, bs)) => SqOK
InvCp  == (ph = 1 /\ AsmCarryPropagate # <<>> /\ b = LZero) => CpOK
=============================================================================
