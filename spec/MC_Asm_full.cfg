CONSTANTS
  W = 51
  NL = 5
  CF = 19
  WORD = 64
  BIAS = 2
  YMAX <- Y32
  DRIFT = FALSE
  FULL = TRUE
INIT Init
NEXT Next
INVARIANTS InvMul InvSq InvCp
CHECK_DEADLOCK FALSE
