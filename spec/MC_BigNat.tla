---- MODULE MC_BigNat ----
(* Cross-check of the Java overrides of BigNat against the pure definitions. *)
EXTENDS BigNat, TLC
VARIABLE i
P255 == BNSubPure(BNShlPure(<<1>>, 255), <<19>>)
LL == <<237,211,245,92,26,99,18,88,214,156,247,162,222,249,222,20,0,0,0,0,0,0,0,0,0,0,0,0,0,0,0,16>>
Small == << <<>>, <<1>>, <<2>>, <<19>>, <<255>>, <<0,1>>, <<1,1>>, <<255,255>>, <<0,0,1>>,
           <<255,255,255,255,255,255,255,255>>, <<0,0,0,0,0,0,0,0,1>>, <<7,3,250,1,99>> >>
Big == << P255, LL,
          <<7,3,250,1,99,200,13,77,190,21,4,5,6,7,8,9,10,255,254,253,128,127,64,63,32,31,16,15,1,2,3,4,5,6,7,8,9>> >>
Vals == Small \o Big
N == Len(Vals)
NS == Len(Small)
Init == i = 0
Next == i' \in 1..N
Ok(a, ia) == \A j \in 1..N : LET b == Vals[j] IN
   /\ BNAdd(a,b) = BNAddPure(a,b)
   /\ BNSub(a,b) = BNSubPure(a,b)
   /\ BNMul(a,b) = BNMulPure(a,b)
   /\ BNCmp(a,b) = BNCmpPure(a,b)
   /\ ((b # <<>> /\ ia <= NS /\ j <= NS) =>
          /\ BNDivMod(a,b) = BNDivModPure(a,b) /\ BNMod(a,b) = BNModPure(a,b) /\ BNDiv(a,b) = BNDivPure(a,b)
          /\ BNAddMod(a,a,b) = BNModPure(BNAddPure(a,a),b)
          /\ BNMulMod(a,a,b) = BNModPure(BNMulPure(a,a),b)
          /\ BNSubMod(b,a,b) = BNModPure(BNSubPure(BNAddPure(BNModPure(b,b),b),BNModPure(a,b)),b)
          /\ BNSubMod(a,b,b) = BNModPure(a,b))
   \* two full-size divisions (the pure long division is slow)
   /\ (((ia = NS + 1 /\ j = NS + 2) \/ (ia = N /\ j = NS + 1)) => BNDivMod(a,b) = BNDivModPure(a,b))
   \* the modular operators against the (already cross-checked) non-modular ones, all sizes
   /\ (b # <<>> => /\ BNAddMod(a,a,b) = BNMod(BNAdd(a,a),b) /\ BNMulMod(a,a,b) = BNMod(BNMul(a,a),b)
                   /\ BNAdd(BNMul(BNDiv(a,b),b), BNMod(a,b)) = a /\ BNLt(BNMod(a,b), b)
                   /\ BNAddMod(BNSubMod(a,LL,b), LL, b) = BNMod(a,b))
   /\ \A k \in {0,1,7,8,9,51,64,255} : /\ BNShl(a,k) = BNShlPure(a,k) /\ BNShr(a,k) = BNShrPure(a,k)
                                        /\ BNLowBits(a,k) = BNLowBitsPure(a,k) /\ BNBit(a,k) = BNBitPure(a,k)
   /\ BNBitLen(a) = BNBitLenPure(a)
   /\ BNNorm(a \o <<0,0>>) = a /\ BNNormPure(a \o <<0>>) = a
   /\ BNIsNat(BNAdd(a,b)) /\ BNIsNat(BNMul(a,b))
   /\ BNAdd(a,b) = BNAdd(b,a) /\ BNMul(a,b) = BNMul(b,a)
   /\ BNSub(BNAdd(a,b),b) = a
   /\ \A k \in 1..N : BNMul(a, BNAdd(b, Vals[k])) = BNAdd(BNMul(a,b), BNMul(a,Vals[k]))
Inv == i > 0 => /\ Ok(Vals[i], i)
               /\ (i <= 3 => /\ BNPowMod(Vals[i], <<77>>, P255) = BNPowModPure(Vals[i], <<77>>, P255)
                              /\ BNPowMod(Vals[i], Vals[i], <<251,255>>) = BNPowModPure(Vals[i], Vals[i], <<251,255>>))
               /\ (i <= NS => BNPowMod(Vals[i], Vals[i], <<251,255>>) = BNPowModPure(Vals[i], Vals[i], <<251,255>>))
               \* Fermat: the override's modular exponentiation at full size
               /\ (Vals[i] # <<>> /\ BNLt(Vals[i], P255) => BNPowMod(Vals[i], BNSub(P255, <<1>>), P255) = <<1>>)
               /\ BNOfInt(i * 1000003) = BNOfIntPure(i * 1000003) /\ BNToInt(BNOfInt(i*77)) = i*77 /\ BNToIntPure(BNOfIntPure(i*77)) = i*77
====
