------------------------------ MODULE MC_Chains -----------------------------
(***************************************************************************)
(* The exponentiation chains of field.Invert, field.Pow22523 and           *)
(* Scalar.Invert, extracted from the working tree (ChainsData, generated   *)
(* by bin/chains.py), executed on EXPONENTS: a squaring doubles, a         *)
(* multiplication adds.  The final exponent must be p - 2, (p - 5)/8 and   *)
(* l - 2: since Multiply and Square are ring operations, this holds for    *)
(* every input at once (properties C09, C07).                              *)
(***************************************************************************)
EXTENDS BigNat, Curves, ChainsData, TLC, Json
VARIABLE n
Init == n = 0
Next == n < 3 /\ n' = n + 1

RECURSIVE Run(_, _, _)
Run(steps, i, env) ==
    IF i > Len(steps) THEN env
    ELSE LET s == steps[i]
             v == CASE s.op = "sq"  -> BNAdd(env[s.a], env[s.a])
                    [] s.op = "mul" -> BNAdd(env[s.a], env[s.b])
                    [] s.op = "set" -> env[s.a]
         IN  Run(steps, i + 1, [x \in DOMAIN env \cup {s.d} |-> IF x = s.d THEN v ELSE env[x]])
Exponent(steps, in, out) == Run(steps, 1, [x \in {in} |-> BNOne])[out]

Report(name, steps, in, out, want) ==
    IF steps = <<>> THEN PrintT("VCHAIN " \o ToJson([chain |-> name, found |-> FALSE, ok |-> TRUE]))
    ELSE PrintT("VCHAIN " \o ToJson([chain |-> name, found |-> TRUE, steps |-> Len(steps), ok |-> Exponent(steps, in, out) = want]))
Inv == /\ (n = 1 => Report("field.Invert", InvertChain, InvertIn, InvertOut, BNSub(RealP, BNOfInt(2))))
       /\ (n = 2 => Report("field.Pow22523", Pow22523Chain, Pow22523In, Pow22523Out, BNShr(BNSub(RealP, BNOfInt(5)), 3)))
       /\ (n = 3 => Report("Scalar.Invert", ScalarInvertChain, ScalarInvertIn, ScalarInvertOut, BNSub(RealL, BNOfInt(2))))
=============================================================================
