---------------------------- MODULE MC_Encoding -----------------------------
(***************************************************************************)
(* Toy instances with the same shape as edwards25519 (P = 2^k - 19, one    *)
(* spare bit in the encoding): EVERY byte string of the encoding length,   *)
(* and every other length up to 2*NB+1 (properties C04, C05, C17, C10).    *)
(*   - the declarative accept set DecodeOK equals "some curve point has    *)
(*     this y" and equals what the algorithm of the code (SqrtRatio +      *)
(*     conditional negation) accepts; the decoded point is THE point with  *)
(*     that y and sign (x = 0 keeps 0 whatever the sign bit says);         *)
(*   - Encode is canonical and Decode(Encode(p)) = p for every point;      *)
(*     re-encoding an accepted non-canonical string gives the canonical    *)
(*     encoding of the same point;                                         *)
(*   - field encodings: FDecode ignores the top bit and reduces, FEncode   *)
(*     is its canonical inverse; wide decoding is reduction mod P;         *)
(*   - the Montgomery map sends P and -P to the same u, the identity to 0. *)
(***************************************************************************)
EXTENDS Edwards, Curves, TLC, FiniteSets

CONSTANTS N, BRUTE      \* field size as an integer; BRUTE = TRUE: search all x for the declarative side

VARIABLES hi, lo, ph
Elems == FAll(N)
Byte  == 0..255

Init == hi \in (IF NB = 1 THEN {0} ELSE Byte) /\ lo = 0 /\ ph = 0
Next == ph = 0 /\ ph' = 1 /\ lo' \in Byte /\ hi' = hi

Str == IF NB = 1 THEN <<lo>> ELSE <<lo, hi>>

PointsWithY(y) == { Pt(x, y) : x \in { x \in Elems : OnCurve(Pt(x, y)) } }

DecodeFacts(s) ==
    LET y   == FDecode(s)
        alg == DecodeAlg(s)
    IN  /\ FIsElem(y)
        /\ DecodeOK(s) <=> alg.ok
        /\ (BRUTE => (DecodeOK(s) <=> PointsWithY(y) # {}))
        /\ (alg.ok => /\ OnCurve(alg.pt) /\ IsDecodeOf(alg.pt, s)
                      /\ (BRUTE => \A q \in PointsWithY(y) : IsDecodeOf(q, s) => q = alg.pt)
                      \* re-encoding gives the canonical encoding of the same point
                      /\ LET c == Encode(alg.pt) IN
                           /\ BNLt(FDecodeRaw(c), P)                          \* canonical: y < P
                           /\ DecodeAlg(c).ok /\ DecodeAlg(c).pt = alg.pt
                           /\ (alg.pt.x # FZero => TopBit(c) = TopBit(s))
                           /\ (alg.pt.x = FZero => TopBit(c) = 0)
                           /\ Encode(DecodeAlg(c).pt) = c
                      \* Montgomery
                      /\ MontU(alg.pt) = MontU(ENeg(alg.pt))
                      /\ (alg.pt = Identity => MontEncode(alg.pt) = [i \in 1..NB |-> 0])
                      /\ (alg.pt.y # FOne => FMul(MontU(alg.pt), FSub(FOne, alg.pt.y)) = FAdd(FOne, alg.pt.y)))
        \* field element encodings
        /\ FDecode(FEncode(y)) = y
        /\ BNLt(BNFromBytes(FEncode(y)), P)
        /\ FDecode(s) = FDecode([s EXCEPT ![NB] = (s[NB] + 128) % 256])         \* the top bit is ignored
        /\ FDecodeWide(s \o s) = FRed(BNAdd(BNFromBytes(s), BNShl(BNFromBytes(s), 8 * NB)))

\* other lengths are rejected by the declarative accept set
OtherLengths == \A n \in (0..(2 * NB + 1)) \ {NB} : ~DecodeOK([i \in 1..n |-> lo])

Inv    == ph = 1 => DecodeFacts(Str)
InvLen == ph = 1 => OtherLengths
=============================================================================
