CONSTANTS
  P <- T32749P
  D <- T32749D
  L <- T32749L
  N <- T32749N
  NB = 2
  SNB = 2
  BRUTE = FALSE
INIT Init
NEXT Next
INVARIANTS Inv InvLen
CHECK_DEADLOCK FALSE
