------------------------------ MODULE MC_Ext13 ------------------------------
(***************************************************************************)
(* Property C13 / C12 on a toy curve: ALL p^4 coordinate quadruples.       *)
(* The polynomial validity test (Z # 0, -X^2+Y^2 = Z^2+dT^2, XY = ZT) is   *)
(* exactly "the quadruple is a projective representation of a curve point  *)
(* with consistent T"; without the Z # 0 conjunct (named deviation         *)
(* BUG_NoZCheck, the defect fixed by d9457f3) exactly one more quadruple   *)
(* is accepted: the all-zero one.                                          *)
(***************************************************************************)
EXTENDS Edwards, Curves, TLC, FiniteSets
CONSTANTS N, BUG_NoZCheck
VARIABLES X, Y, Z, T, ph
Elems == FAll(N)
Init == X \in Elems /\ Y \in Elems /\ Z = FZero /\ T = FZero /\ ph = 0
Next == ph = 0 /\ ph' = 1 /\ Z' \in Elems /\ T' \in Elems /\ UNCHANGED <<X, Y>>

Q == P3(X, Y, Z, T)
Geometric(q) == /\ q.Z # FZero
                /\ OnCurve(AbsP3(q))
                /\ FMul(q.T, FInv(q.Z)) = FMul(AbsP3(q).x, AbsP3(q).y)
\* the acceptance test as implemented (with the named deviation switchable)
Accept(q) == /\ (BUG_NoZCheck \/ q.Z # FZero)
             /\ FSub(FSq(q.Y), FSq(q.X)) = FAdd(FSq(q.Z), FMul(D, FSq(q.T)))
             /\ FMul(q.X, q.Y) = FMul(q.Z, q.T)

Inv == ph = 1 =>
    /\ Accept(Q) <=> Geometric(Q)
    /\ ValidP3(Q) <=> Geometric(Q)
    /\ (ValidP3(Q) => RepOf(Q, AbsP3(Q)) /\ RepOf(OfAffine(AbsP3(Q)), AbsP3(Q)) /\ SamePoint(Q, OfAffine(AbsP3(Q))))
    \* Z = 0 together with the two identities forces the all-zero quadruple
    /\ ((Z = FZero /\ FSub(FSq(Y), FSq(X)) = FMul(D, FSq(T)) /\ FMul(X, Y) = FZero) => (X = FZero /\ Y = FZero /\ T = FZero))
=============================================================================
