CONSTANTS
  P <- T109P
  D <- T109D
  L <- T109L
  N <- T109N
  NB = 1
  SNB = 1
  BUG_NoZCheck = FALSE
INIT Init
NEXT Next
INVARIANT Inv
CHECK_DEADLOCK FALSE
