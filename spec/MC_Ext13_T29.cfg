CONSTANTS
  P <- T29P
  D <- T29D
  L <- T29L
  N <- T29N
  NB = 1
  SNB = 1
  BUG_NoZCheck = FALSE
INIT Init
NEXT Next
INVARIANT Inv
CHECK_DEADLOCK FALSE
