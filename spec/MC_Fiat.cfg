INIT Init
NEXT Next
INVARIANTS Concrete Bounds
CHECK_DEADLOCK FALSE
