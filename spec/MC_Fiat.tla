------------------------------- MODULE MC_Fiat ------------------------------
(***************************************************************************)
(* The word programs of scalar_fiat.go of the working tree (FiatData),     *)
(* executed by the machine of module Fiat at the real modulus l:           *)
(*  - concretely, on every pair of a directed set of reduced 256-bit       *)
(*    values (FiatVals, chosen by bin/fiatx.py): the output must be the    *)
(*    Montgomery-domain result the specification of each function names    *)
(*    (R = 2^256), below l, and no obligation of the machine may fail;     *)
(*  - over intervals, once per function: every obligation (no wrap in a    *)
(*    "+" expression, Uint1 arguments are bits) must hold for ALL          *)
(*    arguments in range.                                                  *)
(* Failures are printed (FFAIL / FLEAD lines), never an invariant          *)
(* violation: they are leads for bin/fiatx.py, which reproduces them on    *)
(* the real code; the verdict is TraceApi's.                               *)
(***************************************************************************)
EXTENDS Fiat, FiatData, Curves, Json, TLC, FiniteSets

LL   == RealL
RR   == BNPow2(256)
RInv == BNPowMod(RR, BNSub(LL, BNOfInt(2)), LL)
VARIABLES a, b, ph, cst

\* argument intervals: a reduced value has its top word at most 2^60 (l < 2^252 + 2^125), its top byte at most 0x10
IvWords(red) == [i \in 1..4 |-> IF red /\ i = 4 THEN <<BNZero, BNPow2(60)>> ELSE IvFull]
IvBytes(red) == [i \in 1..32 |-> IF red /\ i = 32 THEN <<BNZero, BNOfInt(16)>> ELSE <<BNZero, BNOfInt(255)>>]
Words(v) == WordsOf(v, 4, 64)
Bytes32(v) == WordsOf(v, 32, 8)
Report(fn, st, ok) ==
    IF ok /\ st.bad = {} THEN TRUE
    ELSE PrintT("FFAIL " \o ToJson([fn |-> fn, a |-> a, b |-> b, bad |-> { ToString(x) : x \in st.bad }]))

\* the two interpretations are bound to each other: every value of a concrete run (whose arguments are in range) lies in
\* the interval the interval run computed for that variable; a value outside would make the interval proof meaningless
\* (a defect of this specification, reported as FUNSOUND and treated as a failure of the machinery, not of the code)
In(v, iv) == BNLe(iv[1], v) /\ BNLe(v, iv[2])
Contained(fn, stc, sti) ==
    \/ /\ \A x \in DOMAIN stc.env : x \in DOMAIN sti.env /\ In(stc.env[x], sti.env[x])
       /\ \A i \in DOMAIN stc.out : i \in DOMAIN sti.out /\ In(stc.out[i], sti.out[i])
    \/ PrintT("FUNSOUND " \o fn)
Bin(fn, prog, want) ==
    prog = <<>> \/ LET st == FRun(prog, [p1 |-> Words(a), p2 |-> Words(b)]) IN
                   /\ Report(fn, st, DOMAIN st.out = 0..3 /\ OutVal(st, 4, 64) = want)
                   /\ Contained(fn, st, IRun(prog, [p1 |-> IvWords(TRUE), p2 |-> IvWords(TRUE)]))
Un(fn, prog, arg, n, bits, want) ==
    prog = <<>> \/ LET st == FRun(prog, [p1 |-> arg]) IN
                   /\ Report(fn, st, DOMAIN st.out = 0..(n - 1) /\ OutVal(st, n, bits) = want)
                   /\ Contained(fn, st, IRun(prog, [p1 |-> IF Len(arg) = 4 THEN IvWords(TRUE) ELSE IvBytes(TRUE)]))

Concrete ==
    ph = 1 =>
      /\ Bin("FiatMul", FiatMul, BNMulMod(BNMulMod(a, b, LL), cst.rinv, LL))
      /\ Bin("FiatAdd", FiatAdd, BNAddMod(a, b, LL))
      /\ Bin("FiatSub", FiatSub, BNSubMod(a, b, LL))
      /\ (b = BNZero =>
            /\ Un("FiatOpp", FiatOpp, Words(a), 4, 64, BNSubMod(BNZero, a, LL))
            /\ Un("FiatFromMont", FiatFromMont, Words(a), 4, 64, BNMulMod(a, cst.rinv, LL))
            /\ Un("FiatToMont", FiatToMont, Words(a), 4, 64, BNMulMod(a, BNMod(RR, LL), LL))
            /\ Un("FiatToBytes", FiatToBytes, Words(a), 32, 8, a)
            /\ Un("FiatFromBytes", FiatFromBytes, Bytes32(a), 4, 64, a)
            /\ (FiatNonzero = <<>> \/ LET st == FRun(FiatNonzero, [p1 |-> Words(a)]) IN
                                      Report("FiatNonzero", st, BNIsZero(st.out[0]) <=> BNIsZero(a))))

Lead(fn, prog, args) ==
    prog = <<>> \/ LET st == IRun(prog, args) IN
                   \A x \in st.bad : PrintT("FLEAD " \o ToJson([fn |-> fn, pc |-> x[2], what |-> x[1]]))
Red(r, i) == Len(r) >= i /\ r[i]
Bounds ==
    ph = 1 /\ a = BNZero /\ b = BNZero =>      \* (not on an initial state: those are evaluated on the small main-thread stack)
      /\ Lead("FiatMul", FiatMul, [p1 |-> IvWords(Red(FiatMulReduced, 1)), p2 |-> IvWords(Red(FiatMulReduced, 2))])
      /\ Lead("FiatAdd", FiatAdd, [p1 |-> IvWords(Red(FiatAddReduced, 1)), p2 |-> IvWords(Red(FiatAddReduced, 2))])
      /\ Lead("FiatSub", FiatSub, [p1 |-> IvWords(Red(FiatSubReduced, 1)), p2 |-> IvWords(Red(FiatSubReduced, 2))])
      /\ Lead("FiatOpp", FiatOpp, [p1 |-> IvWords(Red(FiatOppReduced, 1))])
      /\ Lead("FiatFromMont", FiatFromMont, [p1 |-> IvWords(Red(FiatFromMontReduced, 1))])
      /\ Lead("FiatToMont", FiatToMont, [p1 |-> IvWords(Red(FiatToMontReduced, 1))])
      /\ Lead("FiatToBytes", FiatToBytes, [p1 |-> IvWords(Red(FiatToBytesReduced, 1))])
      /\ Lead("FiatFromBytes", FiatFromBytes, [p1 |-> IvBytes(Red(FiatFromBytesReduced, 1))])
      /\ Lead("FiatNonzero", FiatNonzero, [p1 |-> IvWords(FALSE)])

Init == a \in FiatVals /\ b = BNZero /\ ph = 0 /\ cst = [rinv |-> RInv]
Next == ph = 0 /\ ph' = 1 /\ b' \in FiatVals /\ UNCHANGED <<a, cst>>
=============================================================================
