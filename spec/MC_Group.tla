------------------------------ MODULE MC_Group ------------------------------
(***************************************************************************)
(* Toy instance: the affine addition law of module Group is a complete     *)
(* group law on ALL points of the curve (closure, identity, inverse,       *)
(* commutativity, associativity, non-vanishing denominators), the group is *)
(* cyclic of order 8*L, EMul agrees with repeated addition, and the        *)
(* projective formulas of module Extended (the ones the code evaluates)    *)
(* refine it for EVERY representation: all points x all Z (properties C02, *)
(* C06, C12; the design-level part of C01).                                *)
(***************************************************************************)
EXTENDS Edwards, Curves, TLC, FiniteSets

CONSTANT N            \* the field size as a TLC integer

VARIABLES a, b, ph
Elems  == FAll(N)
NZ     == Elems \ {FZero}
Points == { q \in { Pt(x, y) : x \in Elems, y \in Elems } : OnCurve(q) }

Init == a \in Points /\ b = Identity /\ ph = 0
Next == ph = 0 /\ ph' = 1 /\ b' \in Points /\ a' = a

GroupLaws(p, q) ==
    /\ EDenPlus(p, q) # FZero /\ EDenMinus(p, q) # FZero          \* completeness
    /\ IsPoint(EAdd(p, q)) /\ OnCurve(EAdd(p, q))                 \* closure
    /\ EAdd(p, q) = EAdd(q, p)
    /\ EAdd(p, Identity) = p
    /\ EAdd(p, ENeg(p)) = Identity /\ OnCurve(ENeg(p))
    /\ ESub(p, q) = EAdd(p, ENeg(q))
    /\ (p = q <=> (p.x = q.x /\ p.y = q.y))

Assoc(p, q) == \A r \in Points : EAdd(EAdd(p, q), r) = EAdd(p, EAdd(q, r))

\* every representation (all non-zero Z1, Z2) of p and q
Refines(p, q) ==
    \A z1 \in NZ : \A z2 \in NZ :
        LET rp == Rescale(OfAffine(p), z1)   rq == Rescale(OfAffine(q), z2) IN
        /\ ValidP3(rp) /\ AbsP3(rp) = p /\ RepOf(rp, p)
        /\ RepOf(XAdd(rp, rq), EAdd(p, q))
        /\ RepOf(XSub(rp, rq), ESub(p, q))
        /\ (XEqual(rp, rq) = 1 <=> p = q)
        /\ (z2 = FOne =>
              /\ RepOf(XNeg(rp), ENeg(p))
              /\ RepOf(XDouble(rp), EDbl(p))
              /\ RepOf(XMultByCofactor(rp), EMul(BNOfInt(8), p))
              /\ CachedRepOf(CachedFromP3(rp), p)
              /\ AffCachedRepOf(AffCachedFromP3(rp), p)
              /\ RepOf(P3FromP1xP1(P1AddAffine(rq, AffCachedFromP3(rp))), EAdd(q, p))
              /\ RepOf(P3FromP1xP1(P1SubAffine(rq, AffCachedFromP3(rp))), ESub(q, p))
              /\ RepOf(P3FromP2(P2FromP1xP1(P1Add(rq, CachedFromP3(rp)))), EAdd(q, p)))

Orders(p) ==
    /\ EMul(BNOfInt(8), EMul(L, p)) = Identity                      \* the group has exponent 8L
    /\ EMul(BNOfInt(3), p) = EAdd(p, EAdd(p, p))
    /\ EMul(BNZero, p) = Identity /\ EMul(BNOne, p) = p
    /\ EMul8(p) = EMul(BNOfInt(8), p)

InvLaws   == ph = 1 => GroupLaws(a, b)
InvAssoc  == ph = 1 => Assoc(a, b)
InvRefine == ph = 1 => Refines(a, b)
InvOrders == (ph = 1 /\ b = Identity) => Orders(a)
\* the group is cyclic of order 8L: exactly 8L points, and some point has order 8L
InvCount  == (ph = 1 /\ b = Identity /\ a = Identity) => /\ Cardinality(Points) = 8 * BNToInt(L)
                       /\ \E g \in Points : EOrder(g, 8 * BNToInt(L) + 1) = 8 * BNToInt(L)
=============================================================================
