CONSTANTS
  P <- T109P
  D <- T109D
  L <- T109L
  N <- T109N
  NB = 1
  SNB = 1
INIT Init
NEXT Next
INVARIANTS InvLaws InvOrders InvCount
CHECK_DEADLOCK FALSE
