CONSTANTS
  P <- T29P
  D <- T29D
  L <- T29L
  N <- T29N
  NB = 1
  SNB = 1
INIT Init
NEXT Next
INVARIANTS InvLaws InvAssoc InvRefine InvOrders InvCount
CHECK_DEADLOCK FALSE
