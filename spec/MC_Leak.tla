------------------------------- MODULE MC_Leak ------------------------------
(* Noninterference by self-composition on the toy scalar size: for ALL pairs of two-byte scalars (top bit clear)
   the observation sequences of the constant-time skeleton coincide -- equivalently all coincide with that of 0. *)
EXTENDS Leak
CONSTANT VARTIME
VARIABLES b1, b2, ph
Init == b2 \in 0..127 /\ b1 = 0 /\ ph = 0
Next == ph = 0 /\ ph' = 1 /\ b1' \in 0..255 /\ b2' = b2
Zero == [i \in 1..NBYTES |-> 0]
Inv == ph = 1 => IF VARTIME THEN ObsVarTime(BNFromBytes(<<b1, b2>>)) = ObsVarTime(BNZero)
                 ELSE ObsConstTime(<<b1, b2>>) = ObsConstTime(Zero)
=============================================================================
