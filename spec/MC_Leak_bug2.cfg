CONSTANTS
  NBYTES = 2
  BUG_Select_DirectIndex = FALSE
  BUG_SkipZeroDigits = TRUE
  VARTIME = FALSE
INIT Init
NEXT Next
INVARIANT Inv
CHECK_DEADLOCK FALSE
