CONSTANTS
  NBYTES = 2
  BUG_Select_DirectIndex = FALSE
  BUG_SkipZeroDigits = FALSE
  VARTIME = TRUE
INIT Init
NEXT Next
INVARIANT Inv
CHECK_DEADLOCK FALSE
