---------------------------- MODULE MC_LimbBounds ---------------------------
(* The fixpoint iteration as a state machine: B grows until Step(B) = B; Safe must hold in every state, and the last
   state is closed.  At the real parameters this is a statement about ALL limb vectors below BStar. *)
EXTENDS LimbBounds, TLC, Json
Y32 == BNSub(BNPow2(32), BNOne)
Y4 == BNOfInt(15)
Y2 == BNOfInt(3)
VARIABLES B, n
Init == B = UBFresh /\ n = 0
Next == Step(B) # B /\ B' = Step(B) /\ n' = n + 1
InvSafe == Safe(B)
\* headroom: the bound stays well below the Subtract bias and close to 2^W
InvShape == \A i \in 1..NL : BNBitLen(B[i]) <= W + 1
InvReport == (Step(B) = B) => PrintT("VBOUND " \o ToJson([rounds |-> n, bitlen |-> [i \in 1..NL |-> BNBitLen(B[i])],
                                                           excess_bits |-> [i \in 1..NL |-> BNBitLen(BNSub(B[i], BNPow2(W)))],
                                                           closed |-> Closed(B)]))
Termination_ == <>(Step(B) = B)
=============================================================================
