CONSTANTS
  W = 51
  NL = 5
  CF = 19
  WORD = 64
  BIAS = 1
  YMAX <- Y32
INIT Init
NEXT Next
INVARIANTS InvSafe InvShape InvReport
CHECK_DEADLOCK FALSE
