CONSTANTS
  W = 6
  NL = 2
  CF = 3
  WORD = 24
  BIAS = 2
  YMAX <- Y2
INIT Init
NEXT Next
INVARIANTS InvSafe InvShape InvReport
CHECK_DEADLOCK FALSE
