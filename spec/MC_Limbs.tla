------------------------------- MODULE MC_Limbs -----------------------------
(***************************************************************************)
(* Limbs => GF on toy parameters, exhaustively: for ALL pairs of limb      *)
(* vectors below the closed bound BStar of the toy instance (computed by   *)
(* the same interval analysis as for the real parameters), every limb      *)
(* operation returns a vector below BStar whose value is the field         *)
(* operation applied to the values; Reduce returns the canonical limbs;    *)
(* the byte-level operations (SetBytes / Bytes / wide bytes) agree with    *)
(* their value-level definitions (properties C09, C10).                    *)
(***************************************************************************)
EXTENDS LimbBounds, TLC, FiniteSets
Y4 == BNOfInt(15)
Y2 == BNOfInt(3)
VARIABLES a, b, ph, bs      \* bs: the closed bound, computed once per initial state
VecsOf(B) == LET R(i) == BNRange(BNToInt(B[i]) + 1)
              IN  IF NL = 2 THEN { <<x, y>> : x \in R(1), y \in R(2) } ELSE { <<x, y, z>> : x \in R(1), y \in R(2), z \in R(3) }
Vecs == VecsOf(BStar)
CONSTANT ALLPAIRS     \* TRUE: all pairs of vectors; FALSE: every vector against the corner vectors of the bound
CornerOf(B) == LET E(i) == {BNZero, BNOne, Mask, BNPow2(W), B[i], BNSub(B[i], BNOne)}
               IN  { <<x, y>> : x \in E(1), y \in E(2) }
Init == a \in Vecs /\ b = LZero /\ ph = 0 /\ bs = BStar
Next == ph = 0 /\ ph' = 1 /\ b' \in (IF ALLPAIRS THEN VecsOf(bs) ELSE CornerOf(bs) \cup {LZero}) /\ a' = a /\ bs' = bs
M(x) == BNMod(x, LP)
Binary ==
    /\ ValP(LAdd(a, b)) = M(BNAdd(Val(a), Val(b))) /\ Within(LAdd(a, b), bs)
    /\ SubNoUnderflow(a, b)
    /\ ValP(LSub(a, b)) = M(BNAdd(Val(a), BNSub(BNMul(BNOfInt(2), LP), M(Val(b))))) /\ Within(LSub(a, b), bs)
    /\ ValP(LMul(a, b)) = M(BNMul(Val(a), Val(b))) /\ Within(LMul(a, b), bs)
    /\ MulFits(a, b)
    /\ (ValP(a) = ValP(b) <=> Val(Reduce(a)) = Val(Reduce(b)))                      \* Equal via canonical bytes
    \* SetWideBytes: two decoded halves (canonical limbs) and their two spare top bits
    /\ LET lo == OfVal(Val(a))  hi == OfVal(Val(b))  K == W * NL IN
         \A lm \in {0, 1} : \A hm \in {0, 1} :
            /\ ValP(LSetWide(lo, lm, hi, hm)) = M(BNAdd(BNAdd(Val(lo), BNShl(BNOfInt(lm), K)),
                                                        BNAdd(BNShl(Val(hi), K + 1), BNShl(BNOfInt(hm), 2 * K + 1))))
            /\ Within(LSetWide(lo, lm, hi, hm), bs)
Unary ==
    /\ ValP(LSquare(a)) = M(BNMul(Val(a), Val(a))) /\ Within(LSquare(a), bs)
    /\ ValP(LNeg(a)) = M(BNSub(LP, ValP(a))) /\ Within(LNeg(a), bs)
    /\ Val(Reduce(a)) = ValP(a) /\ \A i \in 1..NL : BNLe(Reduce(a)[i], Mask)           \* fully reduced, canonical limbs
    /\ LBytesVal(a) = ValP(a)
    /\ \A y \in 0..BNToInt(YMAX) : /\ ValP(LMulSmall(a, BNOfInt(y))) = M(BNMul(Val(a), BNOfInt(y)))
                                   /\ Within(LMulSmall(a, BNOfInt(y)), bs)
    /\ Within(CarryProp(a), bs) /\ ValP(CarryProp(a)) = ValP(a)
    /\ Val(LSetBytes(Val(a))) = BNLowBits(Val(a), W * NL)
InvBinary == ph = 1 => Binary
InvUnary  == (ph = 1 /\ b = LZero) => Unary
InvBound  == (ph = 1 /\ b = LZero /\ a = LZero) => Closed(bs) /\ Safe(bs)
=============================================================================
