CONSTANTS
  W = 6
  NL = 2
  CF = 3
  WORD = 24
  BIAS = 2
  YMAX <- Y2
  ALLPAIRS = FALSE
INIT Init
NEXT Next
INVARIANTS InvBinary InvUnary InvBound
CHECK_DEADLOCK FALSE
