CONSTANTS
  P <- RealP
  D <- RealD
  NB <- RealNB
  L <- RealL
  SNB <- RealNB
INIT Init
NEXT Next
INVARIANT Inv
CHECK_DEADLOCK FALSE
