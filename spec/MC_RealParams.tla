--------------------------- MODULE MC_RealParams ----------------------------
(***************************************************************************)
(* Facts about the REAL constants that everything else relies on, decided  *)
(* by TLC with BigNat arithmetic (no code involved).  The checks sit in an *)
(* invariant over a one-variable state machine because TLC evaluates       *)
(* ASSUMEs on its main thread with a small stack.                          *)
(***************************************************************************)
EXTENDS Edwards, Curves, TLC

VARIABLE k
Init == k = 0
Next == k < 8 /\ k' = k + 1

B == DecodeAlg(RealBEnc).pt

Fermat(n, base) == BNPowMod(BNOfInt(base), BNSub(n, BNOne), n) = BNOne

\* the eight points of small order, by their encodings
Ord8A == <<38,232,149,143,194,178,39,176,69,195,244,137,242,239,152,240,213,223,172,5,211,198,51,57,177,56,2,136,109,83,252,5>>
Ord8B == <<199,23,106,112,61,77,216,79,186,60,11,118,13,16,103,15,42,32,83,250,44,57,204,198,78,199,253,119,146,172,3,122>>
TorsEnc == { <<1>> \o [i \in 1..31 |-> 0],                                   \* identity
             <<236>> \o [i \in 1..30 |-> 255] \o <<127>>,                    \* (0,-1) order 2
             [i \in 1..32 |-> 0], [i \in 1..31 |-> 0] \o <<128>>,            \* (+-sqrt(-1),0) order 4
             Ord8A, [Ord8A EXCEPT ![32] = Ord8A[32] + 128],
             Ord8B, [Ord8B EXCEPT ![32] = Ord8B[32] + 128] }
Tors == { DecodeAlg(s).pt : s \in TorsEnc }
Cardinality8 == \A s1 \in TorsEnc : \A s2 \in TorsEnc : (s1 # s2 => DecodeAlg(s1).pt # DecodeAlg(s2).pt)

Facts ==
  CASE k = 0 -> /\ BNMod(P, BNOfInt(8)) = BNOfInt(5)
                /\ \A b \in {2, 3, 5, 7, 11} : Fermat(P, b) /\ Fermat(L, b)
                /\ BNBitLen(P) = 255 /\ BNBitLen(L) = 253
                /\ BNMod(L, BNOfInt(8)) = BNOfInt(5)
    [] k = 1 -> /\ FMul(D, FOfInt(121666)) = FNeg(FOfInt(121665))
                /\ ~FIsSquare(D)                               \* completeness of the addition law
                /\ FSq(SqrtM1) = FNeg(FOne)
                /\ FIsSquare(FNeg(FOne))
    [] k = 2 -> /\ DecodeAlg(RealBEnc).ok /\ OnCurve(B)
                /\ FMul(B.y, FOfInt(5)) = FOfInt(4)
                /\ ~FIsNegative(B.x)
                /\ Encode(B) = RealBEnc
    [] k = 3 -> /\ EMul(L, B) = Identity
                /\ EMul(BNOne, B) = B /\ EMul(BNZero, B) = Identity
                /\ EMul(BNOfInt(2), B) = EDbl(B)
    [] k = 4 -> /\ \A s \in TorsEnc : DecodeOK(s) /\ DecodeAlg(s).ok /\ OnCurve(DecodeAlg(s).pt)
                /\ Cardinality8
    [] k = 5 -> \A q \in Tors : EMul8(q) = Identity /\ EOrder(q, 9) \in {1, 2, 4, 8}
    [] k = 6 -> /\ { EOrder(q, 9) : q \in Tors } = {1, 2, 4, 8}
                /\ \A q1 \in Tors : \A q2 \in Tors : EAdd(q1, q2) \in Tors
    [] k = 7 -> \* RFC 7748 6.1: X25519(a, 9) test vector (Alice)
                X25519(<<119,7,109,10,115,24,165,125,60,22,193,114,81,178,102,69,223,76,47,135,235,192,153,42,177,119,251,165,29,185,44,42>>, FOfInt(9))
                  = <<133,32,240,9,137,48,167,84,116,139,125,220,180,62,247,90,13,191,58,13,38,56,26,244,235,164,169,142,170,155,78,106>>
    [] OTHER -> TRUE
Inv == Facts
=============================================================================
