------------------------------ MODULE MC_Recode -----------------------------
(* The recodings for EVERY two-byte scalar with the top bit clear (radix 16) resp. every 16-bit value
   (NAF, widths 2..8, word sizes 8 and 16 so that windows straddle word boundaries at every offset). *)
EXTENDS Recode, TLC
VARIABLES b1, b2, ph
Init == b2 \in 0..255 /\ b1 = 0 /\ ph = 0
Next == ph = 0 /\ ph' = 1 /\ b1' \in 0..255 /\ b2' = b2
K == BNFromBytes(<<b1, b2>>)
Inv == ph = 1 =>
    /\ (b2 < 128 => Radix16Contract(Radix16Alg(<<b1, b2>>), K))
    /\ (b2 < 128 => \A w \in 2..8 : /\ NafContract(NafAlg(K, w, 8, 2), K, w) /\ NafContract(NafAlg(K, w, 16, 1), K, w))
    /\ (b2 < 128 => Radix16Contract(Radix16Alg(<<b1, b2, b1>> \o <<b2 % 128>>), BNFromBytes(<<b1, b2, b1, b2 % 128>>)))
=============================================================================
