----------------------------- MODULE MC_Scalar ------------------------------
(***************************************************************************)
(* Scalars on toy moduli L = 2^k + c with 2-byte encodings (SNB = 2), for  *)
(* ALL byte strings (properties C07, C08):                                 *)
(*  - the byte-wise comparison of scalar.go (isReduced, from the most      *)
(*    significant byte down) accepts exactly the strings below L;          *)
(*  - canonical round trip; arithmetic laws of Z/L (ring axioms, inverse,  *)
(*    Invert(0) = 0, Negate(0) = 0);                                       *)
(*  - clamping (prune three low bits, clear the top bit(s), set the next)  *)
(*    followed by reduction;                                               *)
(*  - the three-piece wide reduction x = a + b 2^(8 c1) + c 2^(8 c2) of    *)
(*    SetUniformBytes equals x mod L (checked on all 2^16 values of two    *)
(*    bytes with the other two bytes ranging over boundary values);        *)
(*  - the Montgomery-domain representation is a bijection on [0, L).       *)
(***************************************************************************)
EXTENDS Scalar, Curves, TLC, FiniteSets
VARIABLES b1, b2, ph
Byte == 0..255
Init == b2 \in Byte /\ b1 = 0 /\ ph = 0
Next == ph = 0 /\ ph' = 1 /\ b1' \in Byte /\ b2' = b2
S == <<b1, b2>>
Edge == {0, 1, 127, 128, 255}

Canon(s) ==
    /\ IsReducedAlg(s) <=> CanonicalOK(s)
    /\ (CanonicalOK(s) => SEncode(CanonicalVal(s)) = s /\ SIsScalar(CanonicalVal(s)))
    /\ ~CanonicalOK(<<b1>>) /\ ~CanonicalOK(s \o <<0>>) /\ ~CanonicalOK(<<>>)
    /\ SIsScalar(ClampVal(s)) /\ ClampVal(s) = SRed(BNFromBytes(<<(b1 \div 8) * 8, (b2 % 64) + 64>>))

Wide(s) == \A x \in Edge : \A y \in Edge :
    LET w == <<s[1], x, s[2], y>>  w2 == <<x, s[1], y, s[2]>> IN
    /\ WideAlg(w, 1, 2) = UniformVal(w) /\ WideAlg(w, 1, 3) = UniformVal(w)
    /\ WideAlg(w2, 1, 2) = UniformVal(w2) /\ WideAlg(w2, 1, 3) = UniformVal(w2)
    /\ SIsScalar(UniformVal(w)) /\ UniformOK(w) /\ ~UniformOK(s)

Arith(s) ==
    LET a == SRed(BNFromBytes(s)) IN
    /\ SAdd(a, SNeg(a)) = BNZero /\ SSub(a, a) = BNZero /\ SMul(a, BNOne) = a
    /\ (a # BNZero => SMul(a, SInv(a)) = BNOne) /\ SInv(BNZero) = BNZero /\ SNeg(BNZero) = BNZero
    /\ \A t \in {BNZero, BNOne, BNSub(L, BNOne), BNOfInt(77)} :
          /\ SMulAdd(a, t, a) = SAdd(SMul(a, t), a)
          /\ SMul(a, SAdd(t, BNOne)) = SAdd(SMul(a, t), a)
          /\ SSub(a, t) = SAdd(a, SNeg(t))
          /\ SEqual(a, t) = (IF a = t THEN 1 ELSE 0)
    /\ MontRepOK(ToMont(a), a) /\ BNMulMod(ToMont(a), BNPowMod(BNMod(MontR, L), LMinus2, L), L) = a

Inv == ph = 1 => Canon(S) /\ Wide(S) /\ Arith(S)
=============================================================================
