---------------------------- MODULE MC_ScalarMul ----------------------------
(***************************************************************************)
(* Property C01 (and the alias part of C11) on a toy curve with multi-     *)
(* digit scalars: for ALL scalars k in [0, L), a set of points that        *)
(* contains all eight small-order points, the generator, mixed-order and   *)
(* prime-order points, EVERY prior receiver state (zero value, identity,   *)
(* another point) and receiver/argument aliasing, each of the five         *)
(* algorithms returns the exact multiple / sum of multiples; an empty sum  *)
(* is the identity.  The recodings satisfy their contracts for every       *)
(* scalar of the encoding size.                                            *)
(***************************************************************************)
EXTENDS ScalarMul, Curves, TLC, FiniteSets
CONSTANTS N, NPTS
VARIABLES k, q, ph, cst      \* cst: the sample of points and the precomputed basepoint table, computed once
Elems  == FAll(N)
\* all curve points: for every y the roots of (y^2-1)/(dy^2+1) (SqrtRatioAlg is validated on this field by MC_Sqrt)
PtsWithY(y) == LET sr == SqrtRatioAlg(DecU(y), DecV(y))
               IN  IF sr[2] = 1 THEN {Pt(sr[1], y), Pt(FNeg(sr[1]), y)} ELSE {}
AllPts == UNION { PtsWithY(y) : y \in Elems }
Tors   == { r \in AllPts : EMul8(r) = Identity }
\* a generator of the whole (cyclic) group: order 8L  <=>  [4L]r # 0 and [8]r # 0
G      == CHOOSE r \in AllPts : EMul(BNMul(BNOfInt(4), L), r) # Identity /\ EMul8(r) # Identity
BaseP  == EMul(BNOfInt(8), G)                                         \* a base point of prime order L
\* all torsion points, the generator of the whole group, the base point, and NPTS further points [3^i]G
RECURSIVE Pows(_, _)
Pows(r, i) == IF i = 0 THEN {} ELSE {r} \cup Pows(EMul(BNOfInt(3), r), i - 1)
Sample == Tors \cup {G, BaseP} \cup Pows(EAdd(G, G), NPTS)

Scalars == BNRange(BNToInt(L))
Init == cst = [sample |-> Sample, g |-> G, basep |-> BaseP, btab |-> TableOdd(BaseP, 64)] /\ k \in Scalars /\ q = Identity /\ ph = 0
Next == ph = 0 /\ ph' = 1 /\ q' \in cst.sample /\ k' = k /\ cst' = cst

RecvStates == {UninitPt, Identity, cst.g}
K2 == BNMod(BNAdd(BNMul(k, BNOfInt(7)), BNOfInt(3)), L)               \* a second scalar derived from k
Q2 == EAdd(q, cst.g)

Single ==
    \A al \in BOOLEAN :
        /\ \A v0 \in RecvStates : ScalarMultAlg(k, q, v0, al) = EMul(k, q)
        /\ VarTimeDoubleAlg(k, q, K2, cst.btab, al) = EAdd(EMul(k, q), EMul(K2, cst.basep))
Base == ScalarBaseMultAlg(k, cst.basep) = EMul(k, cst.basep) /\ ScalarBaseMultAlg(k, q) = EMul(k, q)
Multi ==
    \A v0 \in RecvStates :
        /\ MultiScalarMultAlg(<<>>, <<>>, v0, 0) = Identity
        /\ VarTimeMultiAlg(<<>>, <<>>, 0) = Identity
        /\ \A al \in 0..1 :
             /\ MultiScalarMultAlg(<<k>>, <<q>>, v0, al) = EMul(k, q)
             /\ VarTimeMultiAlg(<<k>>, <<q>>, al) = EMul(k, q)
        /\ \A al \in 0..2 :
             /\ MultiScalarMultAlg(<<k, K2>>, <<q, Q2>>, v0, al) = EAdd(EMul(k, q), EMul(K2, Q2))
             /\ VarTimeMultiAlg(<<k, K2>>, <<q, Q2>>, al) = EAdd(EMul(k, q), EMul(K2, Q2))
             /\ MultiScalarMultAlg(<<k, K2, k>>, <<q, q, Q2>>, v0, al) = EAdd(EMul(k, q), EAdd(EMul(K2, q), EMul(k, Q2)))
Recodings ==
    /\ Radix16Contract(Radix16Alg(BNToBytes(k, SNB)), k)
    /\ \A w \in {2, 3, 5, 8} : NafContract(NafAlg(k, w, WS, NW), k, w)

InvSingle == ph = 1 => Single
InvBase   == ph = 1 => Base
InvMulti  == ph = 1 => Multi
\* (evaluated in the successor states so that the work is done by the worker threads)
InvRecode == (ph = 1 /\ q = Identity) => Recodings
InvSetup  == (ph = 1 /\ q = Identity /\ k = BNOne) => Cardinality(AllPts) = 8 * BNToInt(L) /\ Cardinality(Tors) = 8 /\ EMul(L, BaseP) = Identity /\ BaseP # Identity
=============================================================================
