CONSTANTS
  P <- T2029P
  D <- T2029D
  L <- T2029L
  N <- T2029N
  NB = 2
  SNB = 2
  WS = 8
  NW = 2
  NPTS = 2
  BUG_MSM_NoReset = FALSE
  BUG_ResetBeforeTable = FALSE
  BUG_SelectNoNeg = TRUE
INIT Init
NEXT Next
INVARIANTS InvSingle InvBase InvMulti InvRecode InvSetup
CHECK_DEADLOCK FALSE
