CONSTANTS
  L <- ToyL_257
  SNB = 2
INIT Init
NEXT Next
INVARIANT Inv
CHECK_DEADLOCK FALSE
