CONSTANTS
  L <- ToyL_263
  SNB = 2
INIT Init
NEXT Next
INVARIANT Inv
CHECK_DEADLOCK FALSE
