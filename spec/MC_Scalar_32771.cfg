CONSTANTS
  L <- ToyL_32771
  SNB = 2
INIT Init
NEXT Next
INVARIANT Inv
CHECK_DEADLOCK FALSE
