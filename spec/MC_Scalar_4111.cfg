CONSTANTS
  L <- ToyL_4111
  SNB = 2
INIT Init
NEXT Next
INVARIANT Inv
CHECK_DEADLOCK FALSE
