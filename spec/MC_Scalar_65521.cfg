CONSTANTS
  L <- ToyL_65521
  SNB = 2
INIT Init
NEXT Next
INVARIANT Inv
CHECK_DEADLOCK FALSE
