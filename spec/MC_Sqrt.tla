------------------------------ MODULE MC_Sqrt -------------------------------
(***************************************************************************)
(* SQRT_RATIO_M1 (property C16) for ALL pairs (u, v) of a toy field:       *)
(* the algorithm of field/fe.go satisfies the declarative contract, and    *)
(* (UNIQ) the contract determines the result uniquely.  Also field facts   *)
(* used elsewhere: the inverse convention, Euler criterion = "is a         *)
(* square", Abs, parity.                                                   *)
(***************************************************************************)
EXTENDS Edwards, Curves, TLC, FiniteSets
CONSTANTS N, UNIQ
VARIABLES u, v, ph
Elems == FAll(N)
Init == u \in Elems /\ v = FZero /\ ph = 0
Next == ph = 0 /\ ph' = 1 /\ v' \in Elems /\ u' = u

Squares == { FSq(x) : x \in Elems }

Contract(a, b) ==
    LET r == SqrtRatioAlg(a, b) IN
    /\ SqrtRatioContract(a, b, r[1], r[2])
    /\ (UNIQ => \A rr \in Elems : \A ws \in {0, 1} : SqrtRatioContract(a, b, rr, ws) => (rr = r[1] /\ ws = r[2]))
    \* the English statement of C16, spelled out independently of the contract operator
    /\ (a = FZero => r = <<FZero, 1>>)
    /\ (a # FZero /\ b = FZero => r = <<FZero, 0>>)
    /\ (a # FZero /\ b # FZero =>
          IF FDiv(a, b) \in Squares
          THEN r[2] = 1 /\ FSq(r[1]) = FDiv(a, b) /\ ~FIsNegative(r[1])
          ELSE r[2] = 0 /\ FSq(r[1]) = FMul(SqrtM1, FDiv(a, b)) /\ ~FIsNegative(r[1]))

FieldFacts(a) ==
    /\ (a # FZero => FMul(a, FInv(a)) = FOne) /\ FInv(FZero) = FZero
    /\ FIsSquare(a) <=> a \in Squares
    /\ FAbs(a) \in {a, FNeg(a)} /\ ~FIsNegative(FAbs(a))
    /\ FAdd(a, FNeg(a)) = FZero
    /\ FPow(a, P58) = FPow(a, BNShr(BNSub(P, BNOfInt(5)), 3))
    /\ FSq(SqrtM1) = FNeg(FOne)

Inv  == ph = 1 => Contract(u, v)
InvF == (ph = 1 /\ v = FZero) => FieldFacts(u)
=============================================================================
