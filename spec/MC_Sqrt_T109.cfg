CONSTANTS
  P <- T109P
  D <- T109D
  L <- T109L
  N <- T109N
  NB = 1
  SNB = 1
  UNIQ = TRUE
INIT Init
NEXT Next
INVARIANTS Inv InvF
CHECK_DEADLOCK FALSE
