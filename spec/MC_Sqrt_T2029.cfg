CONSTANTS
  P <- T2029P
  D <- T2029D
  L <- T2029L
  N <- T2029N
  NB = 1
  SNB = 1
  UNIQ = FALSE
INIT Init
NEXT Next
INVARIANTS Inv InvF
CHECK_DEADLOCK FALSE
