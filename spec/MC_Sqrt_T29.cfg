CONSTANTS
  P <- T29P
  D <- T29D
  L <- T29L
  N <- T29N
  NB = 1
  SNB = 1
  UNIQ = TRUE
INIT Init
NEXT Next
INVARIANTS Inv InvF
CHECK_DEADLOCK FALSE
