-------------------------------- MODULE Once --------------------------------
(***************************************************************************)
(* Property C18: first-use construction of the two precomputed basepoint   *)
(* tables (scalarmult.go: basepointTable, basepointNafTable) under         *)
(* concurrent callers.                                                     *)
(*                                                                         *)
(* Each goroutine performs one call that uses table A (ScalarBaseMult),    *)
(* table B (VarTimeDoubleScalarBaseMult) or none.  sync.Once.Do is         *)
(* modelled as the Go implementation does it: an atomic load of `done`     *)
(* (fast path); otherwise lock the mutex, re-check `done`, run the builder *)
(* -- NE separate steps, one per table entry, so that every interleaving   *)
(* with readers is explored --, store done, unlock.  Afterwards the caller *)
(* reads every entry of the table.                                         *)
(*                                                                         *)
(* Named deviation BUG_Once_Flag: the publication protocol of a plain      *)
(* flag / compare-and-swap ("if flag.CAS(false,true) { build }; return     *)
(* &table"): the flag is set BEFORE the table is built and the losers      *)
(* return at once.                                                         *)
(***************************************************************************)
EXTENDS Integers, Sequences, FiniteSets, TLC

CONSTANTS G,               \* number of goroutines
          NE,              \* entries per table (builder steps)
          BUG_Once_Flag

Goroutines == 1..G
Tables == {"A", "B"}

(* --algorithm Once
variables done = [t \in Tables |-> FALSE],          \* sync.Once.done (atomic)
          mutex = [t \in Tables |-> 0],             \* 0 = free, else the holder
          entry = [t \in Tables |-> [i \in 1..NE |-> FALSE]],   \* table entry i has been written
          builds = [t \in Tables |-> 0],            \* how many times the builder ran
          building = [t \in Tables |-> 0],          \* how many builders are running right now
          result = [g \in Goroutines |-> "none"];   \* "ok" / "wrong" once the call returned

fair process gor \in Goroutines
variables use \in {"A", "B", "-"}, idx = 1, sawAll = TRUE;
begin
Call:
    if use = "-" then
        result[self] := "ok";
        goto Done;
    end if;
Fast:                                   \* atomic.Load(&o.done)
    if BUG_Once_Flag then
        if ~done[use] then              \* CompareAndSwap(false, true): the winner builds, everybody else returns
            done[use] := TRUE;
            builds[use] := builds[use] + 1;
            building[use] := building[use] + 1;
            idx := 1;
            goto BuildFlag;
        else
            goto Read;
        end if;
    elsif done[use] then
        goto Read;
    end if;
Lock:                                   \* o.m.Lock()
    await mutex[use] = 0;
    mutex[use] := self;
Recheck:                                \* if o.done == 0 { defer store(done, 1); f() }
    if done[use] then
        goto Unlock;
    else
        builds[use] := builds[use] + 1;
        building[use] := building[use] + 1;
        idx := 1;
    end if;
Build:                                  \* the builder writes the table, one entry per step
    while idx <= NE do
        entry[use][idx] := TRUE;
        idx := idx + 1;
    end while;
Publish:                                \* atomic.Store(&o.done, 1)
    building[use] := building[use] - 1;
    done[use] := TRUE;
Unlock:
    mutex[use] := 0;
    goto Read;
BuildFlag:
    while idx <= NE do
        entry[use][idx] := TRUE;
        idx := idx + 1;
    end while;
    building[use] := building[use] - 1;
Read:                                   \* the caller reads every entry it needs (all of them)
    idx := 1;
ReadLoop:
    while idx <= NE do
        sawAll := sawAll /\ entry[use][idx];
        idx := idx + 1;
    end while;
Return:
    result[self] := IF sawAll THEN "ok" ELSE "wrong";
end process;
end algorithm; *)
\* BEGIN TRANSLATION
VARIABLES pc, done, mutex, entry, builds, building, result, use, idx, sawAll

vars == << pc, done, mutex, entry, builds, building, result, use, idx, sawAll
        >>

ProcSet == (Goroutines)

Init == (* Global variables *)
        /\ done = [t \in Tables |-> FALSE]
        /\ mutex = [t \in Tables |-> 0]
        /\ entry = [t \in Tables |-> [i \in 1..NE |-> FALSE]]
        /\ builds = [t \in Tables |-> 0]
        /\ building = [t \in Tables |-> 0]
        /\ result = [g \in Goroutines |-> "none"]
        (* Process gor *)
        /\ use \in [Goroutines -> {"A", "B", "-"}]
        /\ idx = [self \in Goroutines |-> 1]
        /\ sawAll = [self \in Goroutines |-> TRUE]
        /\ pc = [self \in ProcSet |-> "Call"]

Call(self) == /\ pc[self] = "Call"
              /\ IF use[self] = "-"
                    THEN /\ result' = [result EXCEPT ![self] = "ok"]
                         /\ pc' = [pc EXCEPT ![self] = "Done"]
                    ELSE /\ pc' = [pc EXCEPT ![self] = "Fast"]
                         /\ UNCHANGED result
              /\ UNCHANGED << done, mutex, entry, builds, building, use, idx, 
                              sawAll >>

Fast(self) == /\ pc[self] = "Fast"
              /\ IF BUG_Once_Flag
                    THEN /\ IF ~done[use[self]]
                               THEN /\ done' = [done EXCEPT ![use[self]] = TRUE]
                                    /\ builds' = [builds EXCEPT ![use[self]] = builds[use[self]] + 1]
                                    /\ building' = [building EXCEPT ![use[self]] = building[use[self]] + 1]
                                    /\ idx' = [idx EXCEPT ![self] = 1]
                                    /\ pc' = [pc EXCEPT ![self] = "BuildFlag"]
                               ELSE /\ pc' = [pc EXCEPT ![self] = "Read"]
                                    /\ UNCHANGED << done, builds, building, 
                                                    idx >>
                    ELSE /\ IF done[use[self]]
                               THEN /\ pc' = [pc EXCEPT ![self] = "Read"]
                               ELSE /\ pc' = [pc EXCEPT ![self] = "Lock"]
                         /\ UNCHANGED << done, builds, building, idx >>
              /\ UNCHANGED << mutex, entry, result, use, sawAll >>

Lock(self) == /\ pc[self] = "Lock"
              /\ mutex[use[self]] = 0
              /\ mutex' = [mutex EXCEPT ![use[self]] = self]
              /\ pc' = [pc EXCEPT ![self] = "Recheck"]
              /\ UNCHANGED << done, entry, builds, building, result, use, idx, 
                              sawAll >>

Recheck(self) == /\ pc[self] = "Recheck"
                 /\ IF done[use[self]]
                       THEN /\ pc' = [pc EXCEPT ![self] = "Unlock"]
                            /\ UNCHANGED << builds, building, idx >>
                       ELSE /\ builds' = [builds EXCEPT ![use[self]] = builds[use[self]] + 1]
                            /\ building' = [building EXCEPT ![use[self]] = building[use[self]] + 1]
                            /\ idx' = [idx EXCEPT ![self] = 1]
                            /\ pc' = [pc EXCEPT ![self] = "Build"]
                 /\ UNCHANGED << done, mutex, entry, result, use, sawAll >>

Build(self) == /\ pc[self] = "Build"
               /\ IF idx[self] <= NE
                     THEN /\ entry' = [entry EXCEPT ![use[self]][idx[self]] = TRUE]
                          /\ idx' = [idx EXCEPT ![self] = idx[self] + 1]
                          /\ pc' = [pc EXCEPT ![self] = "Build"]
                     ELSE /\ pc' = [pc EXCEPT ![self] = "Publish"]
                          /\ UNCHANGED << entry, idx >>
               /\ UNCHANGED << done, mutex, builds, building, result, use, 
                               sawAll >>

Publish(self) == /\ pc[self] = "Publish"
                 /\ building' = [building EXCEPT ![use[self]] = building[use[self]] - 1]
                 /\ done' = [done EXCEPT ![use[self]] = TRUE]
                 /\ pc' = [pc EXCEPT ![self] = "Unlock"]
                 /\ UNCHANGED << mutex, entry, builds, result, use, idx, 
                                 sawAll >>

Unlock(self) == /\ pc[self] = "Unlock"
                /\ mutex' = [mutex EXCEPT ![use[self]] = 0]
                /\ pc' = [pc EXCEPT ![self] = "Read"]
                /\ UNCHANGED << done, entry, builds, building, result, use, 
                                idx, sawAll >>

BuildFlag(self) == /\ pc[self] = "BuildFlag"
                   /\ IF idx[self] <= NE
                         THEN /\ entry' = [entry EXCEPT ![use[self]][idx[self]] = TRUE]
                              /\ idx' = [idx EXCEPT ![self] = idx[self] + 1]
                              /\ pc' = [pc EXCEPT ![self] = "BuildFlag"]
                              /\ UNCHANGED building
                         ELSE /\ building' = [building EXCEPT ![use[self]] = building[use[self]] - 1]
                              /\ pc' = [pc EXCEPT ![self] = "Read"]
                              /\ UNCHANGED << entry, idx >>
                   /\ UNCHANGED << done, mutex, builds, result, use, sawAll >>

Read(self) == /\ pc[self] = "Read"
              /\ idx' = [idx EXCEPT ![self] = 1]
              /\ pc' = [pc EXCEPT ![self] = "ReadLoop"]
              /\ UNCHANGED << done, mutex, entry, builds, building, result, 
                              use, sawAll >>

ReadLoop(self) == /\ pc[self] = "ReadLoop"
                  /\ IF idx[self] <= NE
                        THEN /\ sawAll' = [sawAll EXCEPT ![self] = sawAll[self] /\ entry[use[self]][idx[self]]]
                             /\ idx' = [idx EXCEPT ![self] = idx[self] + 1]
                             /\ pc' = [pc EXCEPT ![self] = "ReadLoop"]
                        ELSE /\ pc' = [pc EXCEPT ![self] = "Return"]
                             /\ UNCHANGED << idx, sawAll >>
                  /\ UNCHANGED << done, mutex, entry, builds, building, result, 
                                  use >>

Return(self) == /\ pc[self] = "Return"
                /\ result' = [result EXCEPT ![self] = IF sawAll[self] THEN "ok" ELSE "wrong"]
                /\ pc' = [pc EXCEPT ![self] = "Done"]
                /\ UNCHANGED << done, mutex, entry, builds, building, use, idx, 
                                sawAll >>

gor(self) == Call(self) \/ Fast(self) \/ Lock(self) \/ Recheck(self)
                \/ Build(self) \/ Publish(self) \/ Unlock(self)
                \/ BuildFlag(self) \/ Read(self) \/ ReadLoop(self)
                \/ Return(self)

(* Allow infinite stuttering to prevent deadlock on termination. *)
Terminating == /\ \A self \in ProcSet: pc[self] = "Done"
               /\ UNCHANGED vars

Next == (\E self \in Goroutines: gor(self))
           \/ Terminating

Spec == /\ Init /\ [][Next]_vars
        /\ \A self \in Goroutines : WF_vars(gor(self))

Termination == <>(\A self \in ProcSet: pc[self] = "Done")

\* END TRANSLATION

\* ---- properties --------------------------------------------------------
\* the table is constructed at most once, and never by two builders at a time
BuiltOnce     == \A t \in Tables : builds[t] <= 1 /\ building[t] <= 1
\* safe publication: done is visible only after every entry has been written
SafePublish   == \A t \in Tables : (done[t] /\ ~BUG_Once_Flag) => \A k \in 1..NE : entry[t][k]
\* every call returns what it would return sequentially
NoWrongResult == \A g \in Goroutines : result[g] # "wrong"
\* only the lock holder builds
BuilderHoldsLock == \A g \in Goroutines : pc[g] \in {"Build", "Publish"} => mutex[use[g]] = g
\* every call returns: the translation's Termination, checked under the fairness of Spec (no state constraint)
=============================================================================
