----------------------------- MODULE OnceSched ------------------------------
(***************************************************************************)
(* Schedule generator for property C18 (spec -> code direction).           *)
(*                                                                         *)
(* The behaviours of module Once -- the sync.Once protocol as the library  *)
(* uses it, and its named deviations -- are recorded, step by step, in the *)
(* history variable `sched` as <<goroutine, label executed, next label>>.  *)
(* `tlc -simulate` prints each completed behaviour as one JSON line; the   *)
(* check (bin/special_c18.py) projects it on the steps that correspond to  *)
(* a gate of the instrumented library (getter entry / exit, builder entry  *)
(* / step / exit, read step) and the driver replays it into gated          *)
(* goroutines of a cold process (hooks/verifrt: RunSchedule).              *)
(*                                                                         *)
(* The deviations are what makes the corpus adversarial: a behaviour of    *)
(* the flag / no-lock / early-done protocol is a schedule under which code *)
(* that follows THAT protocol builds twice or reads a half-built table,    *)
(* while code that follows sync.Once simply blocks (the turn is a stutter) *)
(* and returns the sequential results.                                     *)
(*   BUG_Once_Flag   (module Once)  compare-and-swap flag set before the   *)
(*                                  build; losers return at once           *)
(*   DEV_NoLock      check-then-build without the mutex                    *)
(*   DEV_EarlyDone   done stored under the lock but BEFORE the build       *)
(***************************************************************************)
EXTENDS Once, Json

CONSTANTS DEV_NoLock, DEV_EarlyDone

VARIABLE sched
svars == <<vars, sched>>

LockNoWait(self) ==
    /\ DEV_NoLock
    /\ pc[self] = "Lock"
    /\ pc' = [pc EXCEPT ![self] = "Recheck"]
    /\ UNCHANGED <<done, mutex, entry, builds, building, result, use, idx, sawAll>>

RecheckEarly(self) ==
    /\ DEV_EarlyDone
    /\ pc[self] = "Recheck"
    /\ ~done[use[self]]
    /\ done' = [done EXCEPT ![use[self]] = TRUE]
    /\ builds' = [builds EXCEPT ![use[self]] = @ + 1]
    /\ building' = [building EXCEPT ![use[self]] = @ + 1]
    /\ idx' = [idx EXCEPT ![self] = 1]
    /\ pc' = [pc EXCEPT ![self] = "Build"]
    /\ UNCHANGED <<mutex, entry, result, use, sawAll>>

Step(self) == IF DEV_EarlyDone /\ pc[self] = "Recheck" THEN RecheckEarly(self) \/ (done[use[self]] /\ gor(self))
              ELSE gor(self) \/ LockNoWait(self)

SInit == Init /\ sched = <<>>
SNext == \E self \in Goroutines :
            /\ Step(self)
            /\ sched' = Append(sched, <<self, pc[self], pc'[self]>>)
SSpec == SInit /\ [][SNext]_svars

AllDone == \A g \in Goroutines : pc[g] = "Done"
Bad == (\E g \in Goroutines : result[g] = "wrong") \/ (\E t \in Tables : builds[t] > 1)
Emit == AllDone => PrintT("SCHED " \o ToJson([use |-> use, bad |-> Bad, turns |-> sched]))

\* with every deviation off this module is module Once with a history variable: its invariants still hold
Safe == BuiltOnce /\ SafePublish /\ NoWrongResult
=============================================================================
