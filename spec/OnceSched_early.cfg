CONSTANTS
  G = 3
  NE = 3
  BUG_Once_Flag = FALSE
  DEV_NoLock = FALSE
  DEV_EarlyDone = TRUE
SPECIFICATION SSpec
INVARIANTS Emit
CHECK_DEADLOCK FALSE
