CONSTANTS
  G = 3
  NE = 3
  BUG_Once_Flag = TRUE
  DEV_NoLock = FALSE
  DEV_EarlyDone = FALSE
SPECIFICATION SSpec
INVARIANTS Emit
CHECK_DEADLOCK FALSE
