CONSTANTS
  G = 3
  NE = 3
  BUG_Once_Flag = FALSE
  DEV_NoLock = TRUE
  DEV_EarlyDone = FALSE
SPECIFICATION SSpec
INVARIANTS Emit
CHECK_DEADLOCK FALSE
