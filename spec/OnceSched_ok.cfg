CONSTANTS
  G = 3
  NE = 3
  BUG_Once_Flag = FALSE
  DEV_NoLock = FALSE
  DEV_EarlyDone = FALSE
SPECIFICATION SSpec
INVARIANTS Emit Safe
CHECK_DEADLOCK FALSE
