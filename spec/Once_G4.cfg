CONSTANTS
  G = 4
  NE = 3
  BUG_Once_Flag = FALSE
SPECIFICATION Spec
INVARIANTS BuiltOnce SafePublish NoWrongResult BuilderHoldsLock
PROPERTY Termination
CHECK_DEADLOCK FALSE
