------------------------------- MODULE Recode -------------------------------
(***************************************************************************)
(* The two scalar recodings of scalar.go, as algorithms (transcribed) and  *)
(* as contracts (what the multiplication algorithms rely on).              *)
(* Digits are TLC integers; the scalar is given by its little-endian bytes *)
(* (signedRadix16) or as a BigNat (nonAdjacentForm).                       *)
(***************************************************************************)
EXTENDS BigNat

\* ---- signed radix 16: 2*nb digits, -8 <= d < 8 except the last one -----
RECURSIVE Recenter(_, _)
Recenter(d, i) ==      \* for i = 1 .. Len(d)-1 :  carry = (d[i] + 8) >> 4
    IF i >= Len(d) THEN d
    ELSE LET carry == (d[i] + 8) \div 16
         IN  Recenter([d EXCEPT ![i] = d[i] - 16 * carry, ![i + 1] = d[i + 1] + carry], i + 1)
Radix16Alg(bytes) ==
    LET nb == Len(bytes)
        raw == [i \in 1..(2 * nb) |-> IF i % 2 = 1 THEN bytes[(i + 1) \div 2] % 16 ELSE bytes[i \div 2] \div 16]
    IN  Recenter(raw, 1)

\* value of a signed digit string in radix 2^r, as a pair of BigNats (positive part, negative part)
RECURSIVE DigitsPos(_, _, _)
DigitsPos(d, r, i) == IF i > Len(d) THEN BNZero
                      ELSE BNAdd(BNShl(BNOfInt(IF d[i] > 0 THEN d[i] ELSE 0), r * (i - 1)), DigitsPos(d, r, i + 1))
RECURSIVE DigitsNeg(_, _, _)
DigitsNeg(d, r, i) == IF i > Len(d) THEN BNZero
                      ELSE BNAdd(BNShl(BNOfInt(IF d[i] < 0 THEN 0 - d[i] ELSE 0), r * (i - 1)), DigitsNeg(d, r, i + 1))
\* sum d[i] 2^(r(i-1)) = k
DigitsValueIs(d, r, k) == DigitsPos(d, r, 1) = BNAdd(k, DigitsNeg(d, r, 1))

Radix16Contract(d, k) ==
    /\ DigitsValueIs(d, 4, k)
    /\ \A i \in 1..(Len(d) - 1) : -8 <= d[i] /\ d[i] <= 7
    /\ -8 <= d[Len(d)] /\ d[Len(d)] <= 8

\* ---- width-w non-adjacent form over nbits = ws * nw bits ---------------
\* the code fetches the window from 64-bit words (ws = 64, nw = 4, plus one zero word); the toy instances
\* use smaller words so that the two-word combination is exercised at every offset
Word(k, ws, i) == BNToInt(BNLowBits(BNShr(k, ws * i), ws))          \* i = 0 .. nw ; word nw is 0 for k < 2^(ws nw)
Pow2Int(n) == BNToInt(BNPow2(n))
RECURSIVE NafLoop(_, _, _, _, _, _, _)
NafLoop(k, w, ws, nw, pos, carry, naf) ==
    IF pos >= ws * nw THEN naf
    ELSE LET iw     == pos \div ws
             ib     == pos % ws
             lo     == Word(k, ws, iw) \div Pow2Int(ib)
             bitBuf == IF ib < ws - w THEN lo
                       ELSE (lo + Word(k, ws, iw + 1) * Pow2Int(ws - ib)) % Pow2Int(ws)      \* (a >> ib) | (b << (ws - ib))
             window == carry + (bitBuf % Pow2Int(w))
         IN  IF window % 2 = 0 THEN NafLoop(k, w, ws, nw, pos + 1, carry, naf)
             ELSE IF window < Pow2Int(w - 1)
                  THEN NafLoop(k, w, ws, nw, pos + w, 0, [naf EXCEPT ![pos + 1] = window])
                  ELSE NafLoop(k, w, ws, nw, pos + w, 1, [naf EXCEPT ![pos + 1] = window - Pow2Int(w)])
NafAlg(k, w, ws, nw) == NafLoop(k, w, ws, nw, 0, 0, [i \in 1..(ws * nw) |-> 0])

NafContract(naf, k, w) ==
    /\ DigitsValueIs(naf, 1, k)
    /\ \A i \in 1..Len(naf) : naf[i] # 0 =>
          /\ naf[i] % 2 = 1 /\ naf[i] < Pow2Int(w - 1) /\ 0 - naf[i] < Pow2Int(w - 1)
          /\ \A j \in (i + 1)..(i + w - 1) : j <= Len(naf) => naf[j] = 0
=============================================================================
