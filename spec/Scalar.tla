------------------------------- MODULE Scalar -------------------------------
(***************************************************************************)
(* Scalars: the integers modulo the prime group order L, their encodings   *)
(* (canonical, wide, clamped) and the Montgomery-domain representation     *)
(* invariant of the fiat-crypto backend (properties C07, C08).             *)
(***************************************************************************)
EXTENDS BigNat

CONSTANTS L,     \* the prime order of the base point, a BigNat
          SNB    \* bytes in a canonical scalar encoding (32)

SIsScalar(a) == BNIsNat(a) /\ BNLt(a, L)
SRed(n)      == BNMod(n, L)
SAdd(a, b)   == BNAddMod(a, b, L)
SSub(a, b)   == BNSubMod(a, b, L)
SNeg(a)      == BNSubMod(BNZero, a, L)
SMul(a, b)   == BNMulMod(a, b, L)
SMulAdd(a, b, c) == BNAddMod(BNMulMod(a, b, L), c, L)
LMinus2      == BNSub(L, BNOfInt(2))
SInv(a)      == BNPowMod(a, LMinus2, L)          \* 0 |-> 0
SEqual(a, b) == IF a = b THEN 1 ELSE 0

\* ---- encodings ----
SEncode(a)          == BNToBytes(a, SNB)
CanonicalOK(s)      == Len(s) = SNB /\ BNLt(BNFromBytes(s), L)
CanonicalVal(s)     == BNFromBytes(s)
UniformOK(s)        == Len(s) = 2 * SNB
UniformVal(s)       == SRed(BNFromBytes(s))
\* RFC 8032 5.1.5 pruning, then reduction mod L
ClampBytes(s)       == [s EXCEPT ![1] = (s[1] \div 8) * 8, ![SNB] = (s[SNB] % 64) + 64]
ClampOK(s)          == Len(s) = SNB
ClampVal(s)         == SRed(BNFromBytes(ClampBytes(s)))

\* ---- the algorithms of scalar.go, to be shown equal to the above on toys ----
\* isReduced: compare with L-1 byte by byte from the most significant end
RECURSIVE IsReducedFrom(_, _, _)
IsReducedFrom(s, lm1, i) ==
    IF i = 0 THEN TRUE
    ELSE IF s[i] > lm1[i] THEN FALSE
    ELSE IF s[i] < lm1[i] THEN TRUE
    ELSE IsReducedFrom(s, lm1, i - 1)
IsReducedAlg(s) == Len(s) = SNB /\ IsReducedFrom(s, BNToBytes(BNSub(L, BNOne), SNB), SNB)

\* SetUniformBytes: split the 2*SNB bytes in three short pieces a, b, c (each < 2^(8*SNB) so
\* that the narrow conversion applies) at byte offsets Cut1, Cut2:  x = a + b 2^(8 Cut1) + c 2^(8 Cut2)
WideAlg(s, cut1, cut2) ==
    LET a == SRed(BNFromBytes(SubSeq(s, 1, cut1)))
        b == SRed(BNFromBytes(SubSeq(s, cut1 + 1, cut2)))
        c == SRed(BNFromBytes(SubSeq(s, cut2 + 1, Len(s))))
        t1 == SRed(BNPow2(8 * cut1))
        t2 == SRed(BNPow2(8 * cut2))
    IN  SAdd(SAdd(a, SMul(b, t1)), SMul(c, t2))

\* ---- Montgomery domain (scalar_fiat.go keeps s * R mod L, R = 2^(8*SNB), fully reduced) ----
MontR        == BNPow2(8 * SNB)
ToMont(a)    == BNMulMod(a, MontR, L)
\* the representation invariant of a Scalar whose value is a and whose stored words, read as
\* one little-endian integer, are w
MontRepOK(w, a) == BNLt(w, L) /\ w = ToMont(a)
=============================================================================
