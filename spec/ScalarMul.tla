----------------------------- MODULE ScalarMul ------------------------------
(***************************************************************************)
(* The five scalar-multiplication algorithms of scalarmult.go / extra.go   *)
(* at the level of the group (the projective formulas they are built from  *)
(* refine the group law: MC_Group), with the order of the code made        *)
(* explicit: check inputs -> build tables from the ARGUMENT -> recode ->   *)
(* reset the receiver -> loop.  The receiver may alias an argument and     *)
(* may start in any state, so receiver-independence and alias safety (C01, *)
(* C11) are checked properties of the design, not assumptions.             *)
(*                                                                         *)
(* Named deviations (all FALSE in every verdict configuration):            *)
(*   BUG_MSM_NoReset        MultiScalarMult accumulates into the receiver  *)
(*                          as found (the defect fixed by 8c2cf14)         *)
(*   BUG_ResetBeforeTable   the receiver is reset before the table is      *)
(*                          built from a (possibly aliased) argument       *)
(*   BUG_SelectNoNeg        the constant-time table selection forgets the  *)
(*                          conditional negation for negative digits       *)
(***************************************************************************)
EXTENDS Edwards, Recode

CONSTANTS BUG_MSM_NoReset, BUG_ResetBeforeTable, BUG_SelectNoNeg,
          WS, NW           \* NAF word size and word count of the instance (64, 4 in the code)

\* a point register holds a curve point or the zero value
UninitPt == [x |-> FZero, y |-> FZero]       \* not a curve point (0 # 1): stands for the zero-value receiver

Digits16(k) == Radix16Alg(BNToBytes(k, SNB))

\* lookup tables: entry j is [j]q (j = 1..8), resp. [2j-1]q (odd multiples), built by repeated addition as in tables.go
RECURSIVE TabFrom(_, _, _, _)
TabFrom(step, prev, j, n) == IF j > n THEN <<>> ELSE <<prev>> \o TabFrom(step, EAdd(step, prev), j + 1, n)
Table8(q)       == TabFrom(q, q, 1, 8)                      \* q, 2q, ..., 8q
TableOdd(q, n)  == TabFrom(EDbl(q), q, 1, n)                \* q, 3q, 5q, ...
\* constant-time selection: scan all entries, keep entry |x|, negate if x < 0; x = 0 gives the identity
Select8(tab, x) == IF x = 0 THEN Identity ELSE IF x > 0 THEN tab[x]
                   ELSE IF BUG_SelectNoNeg THEN tab[0 - x] ELSE ENeg(tab[0 - x])
SelectOdd(tab, x) == tab[(x + 1) \div 2]                     \* x odd, positive:  points[x/2]

Mul16(p) == EDbl(EDbl(EDbl(EDbl(p))))

\* ---- ScalarMult(v; k, q):  v may alias q, v0 is the prior content of v -------------------------
RECURSIVE SMLoop(_, _, _, _)
SMLoop(tab, d, i, acc) == IF i < 1 THEN acc ELSE SMLoop(tab, d, i - 1, EAdd(Mul16(acc), Select8(tab, d[i])))
ScalarMultAlg(k, q, v0, aliased) ==
    LET qq  == IF BUG_ResetBeforeTable /\ aliased THEN Identity ELSE q     \* what the table is built from
        tab == Table8(qq)
        d   == Digits16(k)
        n   == Len(d)
    IN  SMLoop(tab, d, n - 1, EAdd(Identity, Select8(tab, d[n])))

\* ---- ScalarBaseMult(v; k): tables for 256^i B, odd digits first -------------------------------
RECURSIVE Pow256(_, _)
Pow256(b, i) == IF i = 0 THEN b ELSE Pow256(EDbl(EDbl(EDbl(EDbl(EDbl(EDbl(EDbl(EDbl(b)))))))), i - 1)
RECURSIVE SBMAcc(_, _, _, _, _)
SBMAcc(b, d, i, n, acc) == IF i > n THEN acc
                           ELSE SBMAcc(b, d, i + 2, n, EAdd(acc, Select8(Table8(Pow256(b, (i - 1) \div 2)), d[i])))
ScalarBaseMultAlg(k, b) ==
    LET d == Digits16(k)  n == Len(d)
        odd == SBMAcc(b, d, 2, n, Identity)                 \* digits[1], [3], ... in the code's 0-based numbering
    IN  SBMAcc(b, d, 1, n, Mul16(odd))

\* ---- VarTimeDoubleScalarBaseMult(v; a, A, b):  NAF(5) for a, NAF(8) for b ----------------------
RECURSIVE VTLoop(_, _, _, _, _, _)
VTLoop(aNaf, bNaf, aTab, bTab, i, acc) ==
    IF i < 1 THEN acc
    ELSE LET dbl == EDbl(acc)
             t1  == IF aNaf[i] > 0 THEN EAdd(dbl, SelectOdd(aTab, aNaf[i]))
                    ELSE IF aNaf[i] < 0 THEN ESub(dbl, SelectOdd(aTab, 0 - aNaf[i])) ELSE dbl
             t2  == IF bNaf[i] > 0 THEN EAdd(t1, SelectOdd(bTab, bNaf[i]))
                    ELSE IF bNaf[i] < 0 THEN ESub(t1, SelectOdd(bTab, 0 - bNaf[i])) ELSE t1
         IN  VTLoop(aNaf, bNaf, aTab, bTab, i - 1, t2)
\* bTab is the precomputed table of the odd multiples B, 3B, ..., 127B (basepointNafTable, built once)
VarTimeDoubleAlg(a, A, b, bTab, aliased) ==
    LET AA == IF BUG_ResetBeforeTable /\ aliased THEN Identity ELSE A
    IN  VTLoop(NafAlg(a, 5, WS, NW), NafAlg(b, 8, WS, NW), TableOdd(AA, 8), bTab, WS * NW, Identity)

\* ---- MultiScalarMult(v; ks, qs): shared doublings, v is the accumulator ------------------------
RECURSIVE MSAddAll(_, _, _, _, _)
MSAddAll(tabs, ds, i, j, acc) == IF j > Len(tabs) THEN acc
                                 ELSE MSAddAll(tabs, ds, i, j + 1, EAdd(acc, Select8(tabs[j], ds[j][i])))
RECURSIVE MSLoop(_, _, _, _)
MSLoop(tabs, ds, i, acc) == IF i < 1 THEN acc ELSE MSLoop(tabs, ds, i - 1, MSAddAll(tabs, ds, i, 1, Mul16(acc)))
\* v0: prior content of the receiver; aliasIdx: 0, or the index of the point the receiver aliases
MultiScalarMultAlg(ks, qs, v0, aliasIdx) ==
    LET tabs == [j \in 1..Len(qs) |-> Table8(IF BUG_ResetBeforeTable /\ aliasIdx = j THEN Identity ELSE qs[j])]
        ds   == [j \in 1..Len(ks) |-> Digits16(ks[j])]
        n    == 2 * SNB
        start == IF BUG_MSM_NoReset THEN (IF aliasIdx > 0 THEN qs[aliasIdx] ELSE v0) ELSE Identity
    IN  MSLoop(tabs, ds, n - 1, MSAddAll(tabs, ds, n, 1, start))

\* ---- VarTimeMultiScalarMult(v; ks, qs): NAF(5) each, accumulator starts at the identity --------
RECURSIVE VMAddAll(_, _, _, _, _)
VMAddAll(tabs, nafs, i, j, acc) ==
    IF j > Len(tabs) THEN acc
    ELSE VMAddAll(tabs, nafs, i, j + 1,
                  IF nafs[j][i] > 0 THEN EAdd(acc, SelectOdd(tabs[j], nafs[j][i]))
                  ELSE IF nafs[j][i] < 0 THEN ESub(acc, SelectOdd(tabs[j], 0 - nafs[j][i])) ELSE acc)
RECURSIVE VMLoop(_, _, _, _)
VMLoop(tabs, nafs, i, acc) == IF i < 1 THEN acc ELSE VMLoop(tabs, nafs, i - 1, VMAddAll(tabs, nafs, i, 1, EDbl(acc)))
VarTimeMultiAlg(ks, qs, aliasIdx) ==
    LET tabs == [j \in 1..Len(qs) |-> TableOdd(IF BUG_ResetBeforeTable /\ aliasIdx = j THEN Identity ELSE qs[j], 8)]
        nafs == [j \in 1..Len(ks) |-> NafAlg(ks[j], 5, WS, NW)]
    IN  VMLoop(tabs, nafs, WS * NW, Identity)
=============================================================================
