CONSTANTS
  P <- RealP
  D <- RealD
  NB <- RealNB
  L <- RealL
  SNB <- RealNB
  W = 51
  NL = 5
  CF = 19
  WORD = 64
  BIAS = 2
SPECIFICATION Spec
INVARIANT Final
POSTCONDITION AllConsumed
CHECK_DEADLOCK FALSE
