------------------------------ MODULE TraceApi ------------------------------
(***************************************************************************)
(* TheTrace specification: validates an NDJSON trace recorded by the driver   *)
(* (harness/cmd/edrv) from the real library against the specification,     *)
(* at the REAL constants.                                                  *)
(*                                                                         *)
(* It is a monitor: the step for trace line l is always enabled; it        *)
(* recomputes, from the spec's own definitions (Group, Encoding, Scalar,   *)
(* GF) and the logged pre-state, what the call must have returned and      *)
(* done, and collects the named conjuncts that do not hold in `fails`.     *)
(* Every conjunct is tagged with the id of the property it belongs to.     *)
(* The spec keeps its own copy of the register file (`regs`): the logged   *)
(* pre-state of every object taking part in a call must equal the spec's   *)
(* copy (continuity), which together with the `delta` observation rules    *)
(* out action at a distance.  `memo` remembers, per program, the abstract  *)
(* result of every call so that a later identical call with a different    *)
(* result is reported (purity, C19).                                       *)
(*                                                                         *)
(* Verdicts are value-level: which projective representation or limb form  *)
(* the code chose is adopted from the trace, never compared.               *)
(***************************************************************************)
EXTENDS Edwards, Curves, Limbs, Recode, Json, IOUtils, TLC, FiniteSets

TheTrace == ndJsonDeserialize(IOEnv.VERIF_TRACE)

VARIABLES l,        \* next trace line
          regs,     \* the spec's copy of the register file (raw objects)
          dirty,    \* registers whose contents are unknown after a frame violation
          memo,     \* per program: abstract call |-> abstract result
          fails,    \* failing conjuncts of the last step
          nev,      \* events consumed
          nchk      \* conjuncts evaluated so far
vars == <<l, regs, dirty, memo, fails, nev, nchk>>

-----------------------------------------------------------------------------
\* register file
PNames == {"p0", "p1", "p2", "p3", "p4", "p5"}
SNames == {"s0", "s1", "s2", "s3", "s4", "s5"}
ENames == {"e0", "e1", "e2", "e3", "e4", "e5", "e6", "e7"}
BNames == {"b0", "b1", "b2", "b3", "b4", "b5", "b6", "b7"}
Names  == PNames \cup SNames \cup ENames \cup BNames

Z40 == [i \in 1..40 |-> 0]
Z32 == [i \in 1..32 |-> 0]
ZeroPoint == [x |-> Z40, y |-> Z40, z |-> Z40, t |-> Z40]
NilBuf    == [nil |-> 1, len |-> 0, mem |-> <<>>]
ZeroRegs  == [n \in Names |-> IF n \in PNames THEN ZeroPoint
                              ELSE IF n \in SNames THEN Z32
                              ELSE IF n \in ENames THEN Z40 ELSE NilBuf]

-----------------------------------------------------------------------------
\* abstraction of logged objects
Limb(o, i)  == BNFromBytes(SubSeq(o, 8 * i + 1, 8 * i + 8))
LimbsVal(o) == BNAdd(Limb(o, 0), BNAdd(BNShl(Limb(o, 1), 51), BNAdd(BNShl(Limb(o, 2), 102),
                     BNAdd(BNShl(Limb(o, 3), 153), BNShl(Limb(o, 4), 204)))))
EV(o)       == FRed(LimbsVal(o))                                 \* element value
PR(o)       == P3(EV(o.x), EV(o.y), EV(o.z), EV(o.t))            \* point representation (values)
Uninit(o)   == o.x = Z40 /\ o.y = Z40                            \* the zero value, as the library's guard sees it
PValid(o)   == ~Uninit(o) /\ ValidP3(PR(o))
PA(o)       == AbsP3(PR(o))                                      \* affine point
RInv        == BNPowMod(BNMod(MontR, L), LMinus2, L)
SW(o)       == BNFromBytes(o)                                    \* the four words as one integer
SV(o)       == BNMulMod(SW(o), RInv, L)                          \* scalar value (out of the Montgomery domain)
BufBytes(o) == SubSeq(o.mem, 1, o.len)
Limb52(o)   == \A i \in 0..4 : BNBitLen(Limb(o, i)) <= 52

BasePt == DecodeAlg(RealBEnc).pt

\* ---- refinement drift (INFO only): does the code follow the code-shaped layers Limbs / Extended bit for bit? ----
LV(o) == [i \in 1..5 |-> Limb(o, i - 1)]                       \* the limb vector of a logged element
Drift(tag, ok) == {[prop |-> "INFO", tag |-> tag, ok |-> ok]}
SameRep(o, r) == PR(o) = r                                      \* coordinate values equal (mod p), not only the same point

-----------------------------------------------------------------------------
\* conjunct bookkeeping
C(prop, tag, ok) == {[prop |-> prop, tag |-> tag, ok |-> ok]}
UN(S) == UNION S

Positions(e) == <<e.recv>> \o e.args \o e.ss \o e.ps
Aliased(e)   == LET ps == SelectSeq(Positions(e), LAMBDA n : n # "")
                IN  Cardinality({ps[i] : i \in 1..Len(ps)}) < Len(ps)
Involved(e)  == DOMAIN e.pre

\* value conjunct for property prop; a failure under aliasing is also a C11 failure
V(e, prop, tag, ok) == C(prop, tag, ok) \cup (IF Aliased(e) THEN C("C11", "alias.value", ok) ELSE {})

\* the property an operation primarily belongs to (an unexpected panic is a failure of that property, too)
MainProp(op) ==
    CASE op \in {"Point.ScalarMult", "Point.ScalarBaseMult", "Point.VarTimeDoubleScalarBaseMult", "Point.MultiScalarMult",
                 "Point.VarTimeMultiScalarMult"} -> "C01"
      [] op \in {"Point.Add", "Point.Subtract", "Point.Negate", "Point.MultByCofactor"} -> "C02"
      [] op = "Point.SetBytes" -> "C04"
      [] op = "Point.Bytes" -> "C05"
      [] op = "Point.Equal" -> "C06"
      [] op \in {"Scalar.Add", "Scalar.Subtract", "Scalar.Negate", "Scalar.Multiply", "Scalar.MultiplyAdd", "Scalar.Invert", "Scalar.Equal"} -> "C07"
      [] op \in {"Scalar.Bytes", "Scalar.SetCanonicalBytes", "Scalar.SetUniformBytes", "Scalar.SetBytesWithClamping"} -> "C08"
      [] op \in {"Elem.Add", "Elem.Subtract", "Elem.Negate", "Elem.Multiply", "Elem.Square", "Elem.Mult32", "Elem.Invert", "Elem.Pow22523",
                 "Elem.Absolute", "Elem.Zero", "Elem.One"} -> "C09"
      [] op \in {"Elem.Bytes", "Elem.SetBytes", "Elem.SetWideBytes", "Elem.Equal", "Elem.IsNegative", "Elem.Select", "Elem.Swap"} -> "C10"
      [] op \in {"Point.ExtendedCoordinates", "Point.SetExtendedCoordinates"} -> "C13"
      [] op = "Elem.SqrtRatio" -> "C16"
      [] op = "Point.BytesMontgomery" -> "C17"
      [] op \in {"NewIdentityPoint", "NewGeneratorPoint", "NewScalar"} -> "C19"
      [] OTHER -> "C11"
IsFallibleSetter(op) == op \in {"Point.SetBytes", "Point.SetExtendedCoordinates", "Scalar.SetCanonicalBytes", "Scalar.SetUniformBytes",
                               "Scalar.SetBytesWithClamping", "Elem.SetBytes", "Elem.SetWideBytes"}

\* objects that the call must not modify: everything involved except the receiver (when it is written) and outputs
\* (bit for bit: C11.  A Point argument that no longer stands for the same valid point after the call is, in addition, a
\*  failure of the operation's own property: P.Bytes(), P.BytesMontgomery(), P.Equal(Q), Add(P, Q) ... must leave P the point it was)
Frame(e, written) ==
    UN({ C("C11", "arg.unchanged", e.post[n] = e.pre[n])
         \cup (IF n \in PNames /\ PValid(e.pre[n])
               THEN C(MainProp(e.op), "argument.point.preserved", PValid(e.post[n]) /\ SamePoint(PR(e.pre[n]), PR(e.post[n])))
               ELSE {})
         : n \in Involved(e) \ written })

\* all point objects in the post state are uninitialised or valid (C12), scalars reduced (INFO), limbs < 2^52 (INFO)
\* A Point written by a SUCCESSFUL operation must be a valid curve point (in particular not the all-zero quadruple, which the
\* library would afterwards treat as "uninitialized"); any other Point object is the zero value or valid.
PointWriters == {"Point.SetBytes", "Point.Add", "Point.Subtract", "Point.Negate", "Point.MultByCofactor", "Point.ScalarMult",
                 "Point.ScalarBaseMult", "Point.VarTimeDoubleScalarBaseMult", "Point.MultiScalarMult", "Point.VarTimeMultiScalarMult",
                 "Point.SetExtendedCoordinates"}
WrittenOK(e, n) == /\ e.err = 0 /\ e.panic = 0
                   /\ \/ (e.op \in PointWriters /\ n = e.recv)
                      \/ (e.op \in {"NewIdentityPoint", "NewGeneratorPoint"} /\ n = e.outs[1])
PostInv(e) ==
    UN({ IF n \in PNames THEN C("C12", "valid", IF WrittenOK(e, n) THEN ~Uninit(e.post[n]) /\ ValidP3(PR(e.post[n]))
                                                 ELSE Uninit(e.post[n]) \/ ValidP3(PR(e.post[n])))
                              \cup C("INFO", "limb52", \A c \in {"x", "y", "z", "t"} : Limb52(e.post[n][c]))
         ELSE IF n \in SNames THEN C("INFO", "scalar.reduced", BNLt(SW(e.post[n]), L))
         ELSE IF n \in ENames THEN C("INFO", "limb52", Limb52(e.post[n]))
         ELSE {} : n \in DOMAIN e.post })

-----------------------------------------------------------------------------
\* per-operation description: which point registers are INPUTS (must be initialised), and the Ok-path conjuncts

PtInputs(e) ==
    CASE e.op \in {"Point.Add", "Point.Subtract"} -> {e.args[1], e.args[2]}
      [] e.op \in {"Point.Negate", "Point.MultByCofactor"} -> {e.args[1]}
      [] e.op = "Point.Equal" -> {e.recv, e.args[1]}
      [] e.op \in {"Point.Bytes", "Point.BytesMontgomery", "Point.ExtendedCoordinates"} -> {e.recv}
      [] e.op = "Point.ScalarMult" -> {e.args[2]}
      [] e.op = "Point.VarTimeDoubleScalarBaseMult" -> {e.args[2]}
      [] e.op \in {"Point.MultiScalarMult", "Point.VarTimeMultiScalarMult"} -> {e.ps[i] : i \in 1..Len(e.ps)}
      [] OTHER -> {}

ExpectPanic(e) ==
    \/ \E n \in PtInputs(e) : Uninit(e.pre[n])
    \/ (e.op \in {"Point.MultiScalarMult", "Point.VarTimeMultiScalarMult"} /\ Len(e.ss) # Len(e.ps))

InputsValid(e) == \A n \in PtInputs(e) : PValid(e.pre[n])

\* receiver holds (a valid representation of) the affine point q
RecvIs(e, prop, q) ==
    LET r == e.post[e.recv] IN
    V(e, prop, "value", ~Uninit(r) /\ RepOf(PR(r), q)) \cup C(prop, "ret.recv", e.ret = "recv")

SeqOfRegs(names, f(_)) == [i \in 1..Len(names) |-> f(names[i])]

\* fallible setters (C14): err => nil returned and receiver untouched; ok => receiver returned
Setter(e, accept, okConj) ==
    LET who == CASE e.op \in {"Point.SetBytes", "Point.SetExtendedCoordinates"} -> "C14"
                 [] OTHER -> "C14"
    IN  IF e.err = 1
        THEN C(who, "err.ret.nil", e.ret = "nil") \cup C(who, "err.recv.unchanged", e.post[e.recv] = e.pre[e.recv])
             \* "rejected" means without effect: also a failure of the setter's own property
             \cup C(MainProp(e.op), "rejected.input.has.effect", e.post[e.recv] = e.pre[e.recv])
        ELSE C(who, "ok.ret.recv", e.ret = "recv") \cup okConj

\* the byte slice given to a setter is left as it was, spare capacity included (C14: "no setter ever modifies
\* its input"; C11: "input byte slices ... are left bit-for-bit unchanged")
InputUnchanged(e) == LET ok == e.post[e.args[1]] = e.pre[e.args[1]]
                     IN  C("C14", "input.unchanged", ok) \cup C("C11", "input.unchanged", ok) \cup C(MainProp(e.op), "input.unchanged", ok)

OpOk(e) ==
  LET a(i) == e.pre[e.args[i]]
      rpre == e.pre[e.recv]
      rpost == e.post[e.recv]
  IN
  CASE e.op = "NewIdentityPoint" ->
         C("C19", "fresh", e.ret = "fresh") \cup C("C19", "value", RepOf(PR(e.post[e.outs[1]]), Identity))
    [] e.op = "NewGeneratorPoint" ->
         C("C19", "fresh", e.ret = "fresh") \cup C("C19", "value", RepOf(PR(e.post[e.outs[1]]), BasePt))
    [] e.op = "NewScalar" ->
         C("C19", "fresh", e.ret = "fresh") \cup C("C07", "zero", SV(e.post[e.outs[1]]) = BNZero)
    [] e.op = "Point.Set" ->      \* v = u as points (a zero-value argument is copied as such: Set is exempt from the guard)
         V(e, "C11", "copy", IF Uninit(a(1)) THEN Uninit(rpost)
                             ELSE ~Uninit(rpost) /\ SamePoint(PR(rpost), PR(a(1))) /\ (ValidP3(PR(rpost)) <=> ValidP3(PR(a(1)))))
         \cup C("C11", "ret.recv", e.ret = "recv") \cup Frame(e, {e.recv}) \cup Drift("drift.set.rawcopy", rpost = a(1))
    [] e.op = "Point.SetBytes" ->
         LET s == BufBytes(a(1))  acc == DecodeOK(s) IN
         C("C04", "accept.iff", (e.err = 0) <=> acc)
         \cup Setter(e, acc, V(e, "C04", "value", acc => (~Uninit(rpost) /\ ValidP3(PR(rpost)) /\ IsDecodeOf(PA(rpost), s))))
         \cup InputUnchanged(e)
    [] e.op = "Point.Bytes" ->
         LET o == e.post[e.outs[1]] IN
         (IF InputsValid(e) THEN V(e, "C05", "bytes", o.nil = 0 /\ BufBytes(o) = Encode(PA(rpre))) ELSE {})
         \cup C("C19", "fresh", e.ret = "fresh") \cup Frame(e, {e.outs[1]})
    [] e.op = "Point.BytesMontgomery" ->
         LET o == e.post[e.outs[1]] IN
         (IF InputsValid(e) THEN V(e, "C17", "bytes", o.nil = 0 /\ BufBytes(o) = MontEncode(PA(rpre))) ELSE {})
         \cup C("C19", "fresh", e.ret = "fresh") \cup Frame(e, {e.outs[1]})
    [] e.op = "Point.Add" ->
         (IF InputsValid(e) THEN RecvIs(e, "C02", EAdd(PA(a(1)), PA(a(2)))) ELSE {}) \cup Frame(e, {e.recv})
         \cup Drift("drift.formula.add", SameRep(rpost, XAdd(PR(a(1)), PR(a(2)))))
    [] e.op = "Point.Subtract" ->
         (IF InputsValid(e) THEN RecvIs(e, "C02", ESub(PA(a(1)), PA(a(2)))) ELSE {}) \cup Frame(e, {e.recv})
         \cup Drift("drift.formula.sub", SameRep(rpost, XSub(PR(a(1)), PR(a(2)))))
    [] e.op = "Point.Negate" ->
         (IF InputsValid(e) THEN RecvIs(e, "C02", ENeg(PA(a(1)))) ELSE {}) \cup Frame(e, {e.recv})
         \cup Drift("drift.formula.neg", SameRep(rpost, XNeg(PR(a(1)))))
    [] e.op = "Point.MultByCofactor" ->
         (IF InputsValid(e) THEN RecvIs(e, "C02", EMul(BNOfInt(8), PA(a(1)))) ELSE {}) \cup Frame(e, {e.recv})
         \cup Drift("drift.formula.cofactor", SameRep(rpost, XMultByCofactor(PR(a(1)))))
    [] e.op = "Point.Equal" ->
         (IF InputsValid(e) THEN V(e, "C06", "value", e.out = (IF PA(rpre) = PA(a(1)) THEN 1 ELSE 0)) ELSE {})
         \cup C("C06", "range", e.out \in {0, 1}) \cup Frame(e, {})
    [] e.op = "Point.ScalarMult" ->
         (IF InputsValid(e) THEN RecvIs(e, "C01", EMul(SV(a(1)), PA(a(2)))) ELSE {}) \cup Frame(e, {e.recv})
    [] e.op = "Point.ScalarBaseMult" ->
         RecvIs(e, "C01", EMul(SV(a(1)), BasePt)) \cup Frame(e, {e.recv})
    [] e.op = "Point.VarTimeDoubleScalarBaseMult" ->
         (IF InputsValid(e) THEN RecvIs(e, "C01", EAdd(EMul(SV(a(1)), PA(a(2))), EMul(SV(a(3)), BasePt))) ELSE {})
         \cup Frame(e, {e.recv})
    [] e.op \in {"Point.MultiScalarMult", "Point.VarTimeMultiScalarMult"} ->
         (IF InputsValid(e)
          THEN RecvIs(e, "C01", EMSum(SeqOfRegs(e.ss, LAMBDA n : SV(e.pre[n])), SeqOfRegs(e.ps, LAMBDA n : PA(e.pre[n])), 1))
          ELSE {})
         \cup Frame(e, {e.recv}) \cup C("C11", "slice.unchanged", e.slice = 0)
    [] e.op = "Point.ExtendedCoordinates" ->
         LET q == P3(EV(e.post[e.outs[1]]), EV(e.post[e.outs[2]]), EV(e.post[e.outs[3]]), EV(e.post[e.outs[4]])) IN
         (IF InputsValid(e) THEN V(e, "C13", "export", RepOf(q, PA(rpre))) ELSE {})
         \* the exported quadruple is a snapshot: four fresh elements, not pointers into the Point (C19; also C13: export is faithful)
         \cup C("C19", "fresh", e.ret = "fresh") \cup C("C13", "export.fresh", e.ret = "fresh")
         \cup Frame(e, {e.outs[1], e.outs[2], e.outs[3], e.outs[4]})
    [] e.op = "Point.SetExtendedCoordinates" ->
         LET q == P3(EV(a(1)), EV(a(2)), EV(a(3)), EV(a(4)))  acc == ValidP3(q) IN
         C("C13", "accept.iff", (e.err = 0) <=> acc)
         \cup Setter(e, acc, V(e, "C13", "value", ~Uninit(rpost) /\ RepOf(PR(rpost), AbsP3(q))))
         \cup Frame(e, {e.recv})
    \* ----- scalars
    [] e.op = "Scalar.Set" ->
         V(e, "C11", "copy", SV(rpost) = SV(a(1))) \cup C("C11", "ret.recv", e.ret = "recv") \cup Frame(e, {e.recv})
         \cup Drift("drift.set.rawcopy", rpost = a(1))
    [] e.op = "Scalar.Add" ->
         V(e, "C07", "value", SV(rpost) = SAdd(SV(a(1)), SV(a(2)))) \cup C("C07", "ret.recv", e.ret = "recv") \cup Frame(e, {e.recv})
    [] e.op = "Scalar.Subtract" ->
         V(e, "C07", "value", SV(rpost) = SSub(SV(a(1)), SV(a(2)))) \cup C("C07", "ret.recv", e.ret = "recv") \cup Frame(e, {e.recv})
    [] e.op = "Scalar.Negate" ->
         V(e, "C07", "value", SV(rpost) = SNeg(SV(a(1)))) \cup C("C07", "ret.recv", e.ret = "recv") \cup Frame(e, {e.recv})
    [] e.op = "Scalar.Multiply" ->
         V(e, "C07", "value", SV(rpost) = SMul(SV(a(1)), SV(a(2)))) \cup C("C07", "ret.recv", e.ret = "recv") \cup Frame(e, {e.recv})
    [] e.op = "Scalar.MultiplyAdd" ->
         V(e, "C07", "value", SV(rpost) = SMulAdd(SV(a(1)), SV(a(2)), SV(a(3)))) \cup C("C07", "ret.recv", e.ret = "recv") \cup Frame(e, {e.recv})
    [] e.op = "Scalar.Invert" ->
         V(e, "C07", "value", SV(rpost) = SInv(SV(a(1)))) \cup C("C07", "ret.recv", e.ret = "recv") \cup Frame(e, {e.recv})
    [] e.op = "Scalar.Equal" ->
         V(e, "C07", "equal", e.out = SEqual(SV(rpre), SV(a(1)))) \cup C("C07", "equal.range", e.out \in {0, 1}) \cup Frame(e, {})
    [] e.op = "Scalar.Bytes" ->
         LET o == e.post[e.outs[1]] IN
         V(e, "C08", "bytes", o.nil = 0 /\ BufBytes(o) = SEncode(SV(rpre)))
         \cup C("C19", "fresh", e.ret = "fresh") \cup Frame(e, {e.outs[1]})
    [] e.op = "Scalar.SetCanonicalBytes" ->
         LET s == BufBytes(a(1))  acc == CanonicalOK(s) IN
         C("C08", "accept.iff", (e.err = 0) <=> acc)
         \cup Setter(e, acc, V(e, "C08", "value", acc => SV(rpost) = CanonicalVal(s)))
         \cup InputUnchanged(e)
    [] e.op = "Scalar.SetUniformBytes" ->
         LET s == BufBytes(a(1))  acc == UniformOK(s) IN
         C("C08", "accept.iff", (e.err = 0) <=> acc)
         \cup Setter(e, acc, V(e, "C08", "value", acc => SV(rpost) = UniformVal(s)))
         \cup InputUnchanged(e)
    [] e.op = "Scalar.SetBytesWithClamping" ->
         LET s == BufBytes(a(1))  acc == ClampOK(s) IN
         C("C08", "accept.iff", (e.err = 0) <=> acc)
         \cup Setter(e, acc, V(e, "C08", "value", acc => SV(rpost) = ClampVal(s)))
         \cup InputUnchanged(e)
    \* ----- field elements
    [] e.op = "Elem.Zero" -> C("C09", "value", EV(rpost) = FZero) \cup C("C09", "ret.recv", e.ret = "recv")
    [] e.op = "Elem.One"  -> C("C09", "value", EV(rpost) = FOne) \cup C("C09", "ret.recv", e.ret = "recv")
    [] e.op = "Elem.Set"  ->
         V(e, "C11", "copy", EV(rpost) = EV(a(1))) \cup C("C11", "ret.recv", e.ret = "recv") \cup Frame(e, {e.recv})
         \cup Drift("drift.set.rawcopy", rpost = a(1))
    [] e.op = "Elem.Add" ->
         V(e, "C09", "value", EV(rpost) = FAdd(EV(a(1)), EV(a(2)))) \cup C("C09", "ret.recv", e.ret = "recv") \cup Frame(e, {e.recv})
         \cup Drift("drift.limbs.add", LV(rpost) = LAdd(LV(a(1)), LV(a(2))))
    [] e.op = "Elem.Subtract" ->
         V(e, "C09", "value", EV(rpost) = FSub(EV(a(1)), EV(a(2)))) \cup C("C09", "ret.recv", e.ret = "recv") \cup Frame(e, {e.recv})
         \cup Drift("drift.limbs.sub", SubNoUnderflow(LV(a(1)), LV(a(2))) /\ LV(rpost) = LSub(LV(a(1)), LV(a(2))))
    [] e.op = "Elem.Negate" ->
         V(e, "C09", "value", EV(rpost) = FNeg(EV(a(1)))) \cup C("C09", "ret.recv", e.ret = "recv") \cup Frame(e, {e.recv})
    [] e.op = "Elem.Multiply" ->
         V(e, "C09", "value", EV(rpost) = FMul(EV(a(1)), EV(a(2)))) \cup C("C09", "ret.recv", e.ret = "recv") \cup Frame(e, {e.recv})
         \cup Drift("drift.limbs.mul", MulFits(LV(a(1)), LV(a(2))) /\ LV(rpost) = LMul(LV(a(1)), LV(a(2))))
    [] e.op = "Elem.Square" ->
         V(e, "C09", "value", EV(rpost) = FSq(EV(a(1)))) \cup C("C09", "ret.recv", e.ret = "recv") \cup Frame(e, {e.recv})
         \cup Drift("drift.limbs.square", LV(rpost) = LSquare(LV(a(1))))
    [] e.op = "Elem.Mult32" ->
         V(e, "C09", "value", EV(rpost) = FMul(EV(a(1)), FRed(BNFromBytes(e.n)))) \cup C("C09", "ret.recv", e.ret = "recv") \cup Frame(e, {e.recv})
         \cup Drift("drift.limbs.mult32", LV(rpost) = LMulSmall(LV(a(1)), BNFromBytes(e.n)))
    [] e.op = "Elem.Invert" ->
         V(e, "C09", "value", EV(rpost) = FInv(EV(a(1)))) \cup C("C09", "ret.recv", e.ret = "recv") \cup Frame(e, {e.recv})
    [] e.op = "Elem.Pow22523" ->
         V(e, "C09", "value", EV(rpost) = FPow(EV(a(1)), P58)) \cup C("C09", "ret.recv", e.ret = "recv") \cup Frame(e, {e.recv})
    [] e.op = "Elem.Absolute" ->
         V(e, "C09", "value", EV(rpost) = FAbs(EV(a(1)))) \cup C("C09", "ret.recv", e.ret = "recv") \cup Frame(e, {e.recv})
    [] e.op = "Elem.SqrtRatio" ->
         V(e, "C16", "contract", SqrtRatioContract(EV(a(1)), EV(a(2)), EV(rpost), e.out))
         \cup C("C16", "ret.recv", e.ret = "recv") \cup Frame(e, {e.recv})
    [] e.op = "Elem.Select" ->
         LET cnd == BNFromBytes(e.n) IN
         V(e, "C10", "select", EV(rpost) = (IF cnd = BNOne THEN EV(a(1)) ELSE EV(a(2))))
         \cup C("C10", "ret.recv", e.ret = "recv") \cup Frame(e, {e.recv})
    [] e.op = "Elem.Swap" ->
         LET cnd == BNFromBytes(e.n)  u == e.args[1] IN
         V(e, "C10", "swap", IF cnd = BNOne /\ u # e.recv
                          THEN EV(rpost) = EV(a(1)) /\ EV(e.post[u]) = EV(rpre)
                          ELSE EV(rpost) = EV(rpre) /\ EV(e.post[u]) = EV(a(1)))
    [] e.op = "Elem.Equal" ->
         V(e, "C10", "equal", e.out = (IF EV(rpre) = EV(a(1)) THEN 1 ELSE 0)) \cup Frame(e, {})
    [] e.op = "Elem.IsNegative" ->
         C("C10", "isnegative", e.out = FParity(EV(rpre))) \cup Frame(e, {})
    [] e.op = "Elem.Bytes" ->
         LET o == e.post[e.outs[1]] IN
         C("C10", "bytes", o.nil = 0 /\ BufBytes(o) = FEncode(EV(rpre)))
         \cup C("C19", "fresh", e.ret = "fresh") \cup Frame(e, {e.outs[1]})
    [] e.op = "Elem.SetBytes" ->
         LET s == BufBytes(a(1))  acc == Len(s) = NB IN
         C("C10", "accept.iff", (e.err = 0) <=> acc)
         \cup Setter(e, acc, C("C10", "value", acc => EV(rpost) = FDecode(s)))
         \cup InputUnchanged(e)
    [] e.op = "Elem.SetWideBytes" ->
         LET s == BufBytes(a(1))  acc == Len(s) = 2 * NB IN
         C("C10", "accept.iff", (e.err = 0) <=> acc)
         \cup Setter(e, acc, C("C10", "value", acc => EV(rpost) = FDecodeWide(s)))
         \cup InputUnchanged(e)
    \* ----- in-package shim (optional): recodings and lookup tables against Recode / ScalarMul, informational only
    [] e.op = "Shim.Radix16" ->
         LET k == SV(a(1)) IN
         Drift("drift.recode.radix16.value", DigitsValueIs(e.digits, 4, k) /\ \A i \in 1..Len(e.digits) : -8 <= e.digits[i] /\ e.digits[i] <= 8)
         \cup Drift("drift.recode.radix16.range", Radix16Contract(e.digits, k)) \cup Frame(e, {})
    [] e.op = "Shim.NAF" ->
         Drift("drift.recode.naf", NafContract(e.digits, SV(a(1)), BNToInt(BNFromBytes(e.n)))) \cup Frame(e, {})
    [] e.op = "Shim.ProjTable" ->
         LET q == PA(a(1))
             ent(j) == [YpX |-> EV(e.elems[4 * j - 3]), YmX |-> EV(e.elems[4 * j - 2]), Z |-> EV(e.elems[4 * j - 1]), T2d |-> EV(e.elems[4 * j])]
         IN  (IF InputsValid(e) /\ PValid(a(1))
              THEN Drift("drift.table.proj", Len(e.elems) = 32 /\ \A j \in 1..8 : CachedRepOf(ent(j), EMul(BNOfInt(j), q))) ELSE {})
             \cup Frame(e, {})
    [] e.op = "Shim.ProjSelect" ->
         LET q == PA(a(1))
             v == BNFromBytes(e.n)
             neg == BNBit(v, 63) = 1
             mag == IF neg THEN BNSub(BNPow2(64), v) ELSE v
             want == IF neg THEN ENeg(EMul(mag, q)) ELSE EMul(mag, q)
             c == [YpX |-> EV(e.elems[1]), YmX |-> EV(e.elems[2]), Z |-> EV(e.elems[3]), T2d |-> EV(e.elems[4])]
         IN  (IF PValid(a(1)) THEN Drift("drift.table.select", CachedRepOf(c, want)) ELSE {}) \cup Frame(e, {})
    [] e.op = "Shim.BaseTable" ->
         LET n == BNToInt(BNFromBytes(e.n))   i == n \div 8   j == n % 8
             c == [YpX |-> EV(e.elems[1]), YmX |-> EV(e.elems[2]), T2d |-> EV(e.elems[3])]
         IN  Drift("drift.table.base", AffCachedRepOf(c, EMul(BNShl(BNOfInt(j + 1), 8 * i), BasePt)))
    [] e.op = "Shim.BaseNafTable" ->
         LET j == BNToInt(BNFromBytes(e.n))
             c == [YpX |-> EV(e.elems[1]), YmX |-> EV(e.elems[2]), T2d |-> EV(e.elems[3])]
         IN  Drift("drift.table.basenaf", AffCachedRepOf(c, EMul(BNOfInt(2 * j + 1), BasePt)))
    \* driver-only actions: nothing to check, the new contents are adopted
    [] e.op \in {"Buf.Set", "Buf.Scribble", "Elem.Inject"} -> {}
    [] OTHER -> C("INFRA", "unknown.op", FALSE)

\* operations that never return an error and never panic, whatever their arguments
NoErr(e) == C("C14", "no.err", e.err = 0)

Conjuncts(e) ==
    LET cont == UN({ C("INFRA", "continuity", n \in dirty \/ regs[n] = e.pre[n]) : n \in Involved(e) })
        dlt  == C("C19", "frame.others", e.delta = <<>>)
        pan  == C("C15", "panic.iff", (e.panic = 1) <=> ExpectPanic(e))
        unexp == IF e.panic = 1 /\ ~ExpectPanic(e)
                 THEN C(MainProp(e.op), "unexpected.panic", FALSE)
                      \cup (IF IsFallibleSetter(e.op) THEN C("C14", "unexpected.panic", FALSE) ELSE {})
                 ELSE {}
    IN  cont \cup dlt \cup pan \cup unexp \cup PostInv(e)
        \cup (IF e.panic = 1
              THEN Frame(e, IF e.recv = "" THEN {} ELSE {e.recv})       \* nothing is demanded of the receiver
              ELSE IF ExpectPanic(e) THEN {} ELSE OpOk(e))

-----------------------------------------------------------------------------
\* purity (C19): abstract call and abstract result
\* (all abstract objects are tuples of integers so that TLC can compare call keys)
AbsObj(n, o) == IF n \in PNames THEN (IF Uninit(o) THEN <<-1>>
                                      ELSE IF ValidP3(PR(o)) THEN BNToBytes(PA(o).x, 32) \o BNToBytes(PA(o).y, 32)
                                      ELSE o.x \o o.y \o o.z \o o.t)
                ELSE IF n \in SNames THEN BNToBytes(SV(o), 32)
                ELSE IF n \in ENames THEN BNToBytes(EV(o), 32)
                ELSE IF o.nil = 1 THEN <<-2>> ELSE BufBytes(o)
Written(e) == (IF e.recv = "" THEN {} ELSE {e.recv}) \cup {e.outs[i] : i \in 1..Len(e.outs)}
IsInput(e, n) ==     \* is register n read by the call?  (the receiver of a setter / arithmetic op is not)
    \/ n \in {e.args[i] : i \in 1..Len(e.args)} \cup {e.ss[i] : i \in 1..Len(e.ss)} \cup {e.ps[i] : i \in 1..Len(e.ps)}
    \/ (n = e.recv /\ e.op \in {"Point.Bytes", "Point.BytesMontgomery", "Point.Equal", "Point.ExtendedCoordinates",
                                 "Scalar.Bytes", "Scalar.Equal", "Elem.Bytes", "Elem.Equal", "Elem.IsNegative", "Elem.Swap"})
CallKey(e) == <<e.op, e.n, [i \in 1..Len(Positions(e)) |->
                   LET n == Positions(e)[i] IN IF n = "" \/ ~IsInput(e, n) THEN <<>> ELSE AbsObj(n, e.pre[n])]>>
\* library calls are memoised, keys are per program; of a call that panicked only the fact is kept (whether a call panics
\* must depend on its arguments alone, like its result)
Memoisable(e) == e.op \notin {"Buf.Set", "Buf.Scribble", "Elem.Inject", "Shim.Radix16", "Shim.NAF", "Shim.ProjTable", "Shim.ProjSelect",
                              "Shim.BaseTable", "Shim.BaseNafTable"}
\* the result is compared up to the names of the written registers
ResShape(e) == IF e.panic = 1 THEN <<0, 1, 0, <<>>, <<>> >> ELSE
               <<e.err, e.panic, e.out,
                 \* (a failed setter leaves the receiver as it was: its contents are then not a result of the call)
                 IF e.recv = "" \/ e.err = 1 THEN <<>> ELSE AbsObj(e.recv, e.post[e.recv]),
                 \* (ExtendedCoordinates returns a representation: its abstract result is the point it stands for)
                 IF e.op = "Point.ExtendedCoordinates"
                 THEN LET q == P3(EV(e.post[e.outs[1]]), EV(e.post[e.outs[2]]), EV(e.post[e.outs[3]]), EV(e.post[e.outs[4]]))
                      IN  <<IF ValidP3(q) THEN BNToBytes(AbsP3(q).x, 32) \o BNToBytes(AbsP3(q).y, 32) ELSE <<-3>> >>
                 ELSE [i \in 1..Len(e.outs) |-> AbsObj(e.outs[i], e.post[e.outs[i]])]>>
Purity(e) == IF Memoisable(e) /\ CallKey(e) \in DOMAIN memo
             THEN C("C19", "pure.history", memo[CallKey(e)] = ResShape(e)) ELSE {}

-----------------------------------------------------------------------------
Init == /\ l = 1
        /\ regs = ZeroRegs
        /\ dirty = {}
        /\ memo = << >>
        /\ fails = {}
        /\ nev = 0
        /\ nchk = 0

StepReset == /\ regs' = ZeroRegs
             /\ dirty' = {}
             /\ memo' = << >>
             /\ fails' = {}
             /\ nev' = nev
             /\ nchk' = nchk

StepEvent(e) ==
    LET cs == Conjuncts(e) \cup Purity(e)
        bad == { [prop |-> c.prop, tag |-> c.tag] : c \in { c \in cs : ~c.ok } }
    IN  /\ fails' = bad
        /\ (bad # {} => PrintT("VFAIL " \o ToJson([line |-> l, prog |-> e.prog, i |-> e.i, op |-> e.op, fails |-> bad])))
        /\ regs' = [n \in Names |-> IF n \in DOMAIN e.post THEN e.post[n] ELSE regs[n]]
        /\ dirty' = (dirty \ DOMAIN e.post) \cup {e.delta[i] : i \in 1..Len(e.delta)}
        /\ memo' = IF Memoisable(e) /\ CallKey(e) \notin DOMAIN memo
                   THEN [k \in DOMAIN memo \cup {CallKey(e)} |-> IF k = CallKey(e) THEN ResShape(e) ELSE memo[k]]
                   ELSE memo
        /\ nev' = nev + 1
        /\ nchk' = nchk + Cardinality(cs)

\* an event validated earlier in the same file (the shared prelude of a concurrent scenario, repeated in front of every
\* goroutine's program for the continuity of its registers): only the logged post-state is taken over
StepAdopt(e) == /\ regs' = [n \in Names |-> IF n \in DOMAIN e.post THEN e.post[n] ELSE regs[n]]
                /\ dirty' = (dirty \ DOMAIN e.post) \cup {e.delta[i] : i \in 1..Len(e.delta)}
                /\ fails' = {}
                /\ UNCHANGED <<memo, nev, nchk>>

Next == /\ l <= Len(TheTrace)
        /\ l' = l + 1
        /\ LET e == TheTrace[l] IN
             IF e.op = "Reset" THEN StepReset
             ELSE IF "adopt" \in DOMAIN e THEN StepAdopt(e) ELSE StepEvent(e)

Spec == Init /\ [][Next]_vars

\* for --replay of a single program: stop at the first failing conjunct with a counterexample
NoFail == \A f \in fails : f.prop \in {"INFO"}

\* the whole trace was consumed (one state per line plus the initial state)
AllConsumed == /\ TLCGet("stats").diameter - 1 = Len(TheTrace)
               /\ PrintT("VDONE " \o ToJson([lines |-> Len(TheTrace), consumed |-> TLCGet("stats").diameter - 1]))
Final == l = Len(TheTrace) + 1 => PrintT("VSTATS " \o ToJson([events |-> nev, conjuncts |-> nchk]))
=============================================================================
