------------------------------ MODULE TraceCT -------------------------------
(***************************************************************************)
(* Property C03 as a 2-safety property checked by self-composition on      *)
(* recorded executions: two runs of the SAME program shape (same           *)
(* operations, registers, aliasing, slice lengths) with DIFFERENT secrets  *)
(* (scalars, points, field elements, cond bits, prior receiver contents)   *)
(* are consumed in lock step.  Each trace line carries the sequence of     *)
(* observations the instrumented library made during that call: branch     *)
(* decisions (if / for / && / ||, switch clause), every non-constant index *)
(* and slice bound, shift counts, division operands, loop trip counts,     *)
(* lengths given to make/append/copy, arguments of calls leaving the       *)
(* library that are not on the constant-time allow-list, function entries. *)
(* For every constant-time operation the two observation sequences must be *)
(* equal.                                                                  *)
(*                                                                         *)
(* Policy (the property's exemptions):                                     *)
(*   - operations named VarTime are exempt;                                *)
(*   - validity decisions of decoders are exempt: Scalar.SetCanonicalBytes *)
(*     (byte-wise comparison with l) entirely; for the other fallible      *)
(*     setters the accept/reject outcome itself (events whose outcomes     *)
(*     differ between the runs are skipped);                               *)
(*   - the uninitialised-Point guard is declassified by the instrumenter   *)
(*     (its outcome -- panic or not -- is still compared).                 *)
(***************************************************************************)
EXTENDS Integers, Sequences, FiniteSets, Json, IOUtils, TLC

TraceA == ndJsonDeserialize(IOEnv.VERIF_TRACE)
TraceB == ndJsonDeserialize(IOEnv.VERIF_TRACE_B)

VARIABLES l, nev, nobs
vars == <<l, nev, nobs>>

ExemptOps == {"Point.VarTimeDoubleScalarBaseMult", "Point.VarTimeMultiScalarMult", "Scalar.SetCanonicalBytes",
              "Buf.Set", "Buf.Scribble", "Elem.Inject"}
FallibleSetters == {"Point.SetBytes", "Point.SetExtendedCoordinates", "Scalar.SetUniformBytes", "Scalar.SetBytesWithClamping",
                    "Elem.SetBytes", "Elem.SetWideBytes"}

Min(S) == CHOOSE x \in S : \A y \in S : x <= y
FirstDiff(s, t) ==
    LET m == IF Len(s) < Len(t) THEN Len(s) ELSE Len(t)
        D == { k \in 1..m : s[k] # t[k] }
    IN  IF D # {} THEN Min(D) ELSE m + 1

Init == l = 1 /\ nev = 0 /\ nobs = 0
Next ==
    /\ l <= Len(TraceA)
    /\ l' = l + 1
    /\ LET a == TraceA[l]  b == TraceB[l] IN
       IF a.op # b.op \/ a.prog # b.prog \/ a.i # b.i
       THEN /\ PrintT("VFAIL " \o ToJson([line |-> l, prog |-> a.prog, i |-> a.i, op |-> a.op,
                                          fails |-> {[prop |-> "INFRA", tag |-> "traces.out.of.step"]}]))
            /\ UNCHANGED <<nev, nobs>>
       ELSE IF a.op \in ExemptOps \/ (a.op \in FallibleSetters /\ a.err # b.err)
       THEN UNCHANGED <<nev, nobs>>
       ELSE /\ nev' = nev + 1
            /\ nobs' = nobs + Len(a.obs)
            /\ (a.panic # b.panic =>
                  PrintT("VFAIL " \o ToJson([line |-> l, prog |-> a.prog, i |-> a.i, op |-> a.op,
                                             fails |-> {[prop |-> "C03", tag |-> "panic.outcome.differs"]}])))
            /\ (a.obs # b.obs =>
                  LET k == FirstDiff(a.obs, b.obs) IN
                  PrintT("VFAIL " \o ToJson([line |-> l, prog |-> a.prog, i |-> a.i, op |-> a.op,
                                             fails |-> {[prop |-> "C03", tag |-> "observations.differ"]},
                                             at |-> k, lenA |-> Len(a.obs), lenB |-> Len(b.obs),
                                             obsA |-> IF k <= Len(a.obs) THEN a.obs[k] ELSE "-",
                                             obsB |-> IF k <= Len(b.obs) THEN b.obs[k] ELSE "-"])))
Spec == Init /\ [][Next]_vars
AllConsumed == /\ Len(TraceA) = Len(TraceB)
               /\ TLCGet("stats").diameter - 1 = Len(TraceA)
               /\ PrintT("VDONE " \o ToJson([lines |-> Len(TraceA), consumed |-> TLCGet("stats").diameter - 1]))
Final == l = Len(TraceA) + 1 => PrintT("VSTATS " \o ToJson([events |-> nev, conjuncts |-> nobs]))
=============================================================================
