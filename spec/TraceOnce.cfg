SPECIFICATION Spec
INVARIANT Final
POSTCONDITION AllConsumed
CHECK_DEADLOCK FALSE
