----------------------------- MODULE TraceOnce ------------------------------
(***************************************************************************)
(* Trace specification for property C18: the function entry/exit log of    *)
(* one concurrent cold-start scenario of the real (instrumented) library,  *)
(* ordered by the sequence numbers taken under the recorder's mutex, is    *)
(* replayed against the abstract state of module Once:                     *)
(*    builds[t]    how many times the builder of table t started           *)
(*    building[t]  the goroutines currently inside the builder             *)
(*    done[t]      the builder has completed (the table is published)      *)
(* Log events and the Once actions they correspond to:                     *)
(*    enter builder(t) by g   = Recheck (not done) .. Build : needs no     *)
(*                              other builder and no earlier build         *)
(*    exit  builder(t) by g   = Build finished; Publish follows            *)
(*    exit  getter(t)  by g   = the goroutine got &table and goes on to    *)
(*                              Read: allowed only when done[t]            *)
(* The getter / builder function ids come from the instrumenter's site     *)
(* table and are passed in the environment.                                *)
(***************************************************************************)
EXTENDS Integers, Sequences, FiniteSets, Json, IOUtils, TLC

Log == ndJsonDeserialize(IOEnv.VERIF_TRACE)
\* function ids: "<getterA>,<builderA>,<getterB>,<builderB>" as JSON in VERIF_ONCE_IDS
Ids == ndJsonDeserialize(IOEnv.VERIF_ONCE_IDS)[1]

VARIABLES l, builds, building, done, bad
vars == <<l, builds, building, done, bad>>
Tables == {"A", "B"}
Getter(t)  == IF t = "A" THEN Ids.getterA ELSE Ids.getterB
Builder(t) == IF t = "A" THEN Ids.builderA ELSE Ids.builderB

Init == /\ l = 1
        /\ builds = [t \in Tables |-> 0]
        /\ building = [t \in Tables |-> {}]
        /\ done = [t \in Tables |-> FALSE]
        /\ bad = {}

Step(e) ==
    LET tb == { t \in Tables : e.func = Builder(t) }
        tg == { t \in Tables : e.func = Getter(t) }
    IN  IF tb # {} THEN
            LET t == CHOOSE t \in tb : TRUE IN
            IF e.exit = 0
            THEN /\ builds' = [builds EXCEPT ![t] = @ + 1]
                 /\ building' = [building EXCEPT ![t] = @ \cup {e.g}]
                 /\ done' = done
                 /\ bad' = (IF builds[t] >= 1 THEN {<<"BuiltOnce", t, l>>} ELSE {})
                            \cup (IF building[t] # {} THEN {<<"OneBuilder", t, l>>} ELSE {})
            ELSE /\ building' = [building EXCEPT ![t] = @ \ {e.g}]
                 /\ done' = [done EXCEPT ![t] = TRUE]
                 /\ builds' = builds
                 /\ bad' = {}
        ELSE IF tg # {} /\ e.exit = 1 THEN
            LET t == CHOOSE t \in tg : TRUE IN
            /\ bad' = (IF ~done[t] THEN {<<"SafePublish", t, l>>} ELSE {})
            /\ UNCHANGED <<builds, building, done>>
        ELSE /\ bad' = {} /\ UNCHANGED <<builds, building, done>>

Next == /\ l <= Len(Log)
        /\ l' = l + 1
        /\ Step(Log[l])
        /\ (bad' # {} => PrintT("VFAIL " \o ToJson([line |-> l, prog |-> 0, i |-> l, op |-> "conc", fails |-> {[prop |-> "C18", tag |-> "once.protocol"]}, what |-> bad'])))
Spec == Init /\ [][Next]_vars
BuiltOnce == \A t \in Tables : builds[t] <= 1 /\ Cardinality(building[t]) <= 1
AllConsumed == /\ TLCGet("stats").diameter - 1 = Len(Log)
               /\ PrintT("VDONE " \o ToJson([lines |-> Len(Log), consumed |-> TLCGet("stats").diameter - 1]))
Final == l = Len(Log) + 1 => PrintT("VSTATS " \o ToJson([events |-> Len(Log), conjuncts |-> builds["A"] + builds["B"]]))
=============================================================================
