CONSTANTS
  P <- RealP
  D <- RealD
  NB <- RealNB
  L <- RealL
  SNB <- RealNB
SPECIFICATION Spec
INVARIANT Final
POSTCONDITION AllConsumed
CHECK_DEADLOCK FALSE
