----------------------------- MODULE TracePair ------------------------------
(***************************************************************************)
(* Property C20 as a product monitor: two traces of the SAME programs,     *)
(* recorded from two builds of the same working tree (default: amd64       *)
(* assembly for feMul/feSquare; -tags purego: portable code), are consumed *)
(* in lock step.  For every event both builds must agree on the outcome    *)
(* (error, panic, integer result, which pointer was returned), on every    *)
(* byte the library produced (byte-identical buffers), on every scalar,    *)
(* and on the VALUE mod p of every field element and the curve point of    *)
(* every Point they left behind.  Limb-for-limb equality of the two        *)
(* builds is recorded as INFO (refinement drift), not required.            *)
(***************************************************************************)
EXTENDS Edwards, Curves, Json, IOUtils, TLC, FiniteSets

TraceA == ndJsonDeserialize(IOEnv.VERIF_TRACE)
TraceB == ndJsonDeserialize(IOEnv.VERIF_TRACE_B)

VARIABLES l, nev, nchk
vars == <<l, nev, nchk>>

PNames == {"p0", "p1", "p2", "p3", "p4", "p5"}
SNames == {"s0", "s1", "s2", "s3", "s4", "s5"}
ENames == {"e0", "e1", "e2", "e3", "e4", "e5", "e6", "e7"}
Z40 == [i \in 1..40 |-> 0]
Limb(o, i)  == BNFromBytes(SubSeq(o, 8 * i + 1, 8 * i + 8))
LimbsVal(o) == BNAdd(Limb(o, 0), BNAdd(BNShl(Limb(o, 1), 51), BNAdd(BNShl(Limb(o, 2), 102),
                     BNAdd(BNShl(Limb(o, 3), 153), BNShl(Limb(o, 4), 204)))))
EV(o)       == FRed(LimbsVal(o))
PR(o)       == P3(EV(o.x), EV(o.y), EV(o.z), EV(o.t))
Uninit(o)   == o.x = Z40 /\ o.y = Z40
\* the same bound class: every limb below 2^52 in both, or the same limbs
Limb52(o)   == \A i \in 0..4 : BNBitLen(Limb(o, i)) <= 52

C(prop, tag, ok) == {[prop |-> prop, tag |-> tag, ok |-> ok]}
UN(S) == UNION S

SameObj(n, a, b) ==
    IF n \in PNames THEN
        C("C20", "point", (Uninit(a) /\ Uninit(b)) \/ (~Uninit(a) /\ ~Uninit(b) /\ SamePoint(PR(a), PR(b))
                                                      /\ (ValidP3(PR(a)) <=> ValidP3(PR(b)))))
        \cup C("INFO", "point.limbs", a = b)
    ELSE IF n \in ENames THEN
        C("C20", "element.value", EV(a) = EV(b)) \cup C("C20", "element.bounds", Limb52(a) <=> Limb52(b))
        \cup C("INFO", "element.limbs", a = b)
    ELSE C("C20", IF n \in SNames THEN "scalar" ELSE "bytes", a = b)

Conjuncts(a, b) ==
    IF a.op # b.op \/ a.prog # b.prog \/ a.i # b.i THEN C("INFRA", "traces.out.of.step", FALSE)
    ELSE IF a.op = "Reset" THEN {}
    ELSE C("C20", "outcome", a.err = b.err /\ a.panic = b.panic /\ a.out = b.out /\ a.ret = b.ret)
         \cup C("INFRA", "same.inputs", DOMAIN a.pre = DOMAIN b.pre)
         \cup UN({ SameObj(n, a.post[n], b.post[n]) : n \in DOMAIN a.post })

Init == l = 1 /\ nev = 0 /\ nchk = 0
Next == /\ l <= Len(TraceA)
        /\ l' = l + 1
        /\ LET a == TraceA[l]  b == TraceB[l]
               cs == Conjuncts(a, b)
               bad == { [prop |-> c.prop, tag |-> c.tag] : c \in { c \in cs : ~c.ok } }
           IN  /\ (bad # {} => PrintT("VFAIL " \o ToJson([line |-> l, prog |-> a.prog, i |-> a.i, op |-> a.op, fails |-> bad])))
               /\ nev' = nev + 1
               /\ nchk' = nchk + Cardinality(cs)
Spec == Init /\ [][Next]_vars
AllConsumed == /\ Len(TraceA) = Len(TraceB)
               /\ TLCGet("stats").diameter - 1 = Len(TraceA)
               /\ PrintT("VDONE " \o ToJson([lines |-> Len(TraceA), consumed |-> TLCGet("stats").diameter - 1]))
Final == l = Len(TraceA) + 1 => PrintT("VSTATS " \o ToJson([events |-> nev, conjuncts |-> nchk]))
=============================================================================
